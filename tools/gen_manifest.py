#!/usr/bin/env python3
"""Generates /verif/MANIFEST.json from the table below (one entry per property)."""
import json, sys

SETUP = "cd /verif/engine && GOFLAGS=-mod=mod GOPROXY=off GOSUMDB=off GOTOOLCHAIN=local CGO_ENABLED=0 go build -o ../bin/vcheck ./cmd/vcheck"
BASELINE = "cd /repo && GOFLAGS=-mod=mod go test -json -vet=off -count=1 -timeout 25m ./..."

TRUST = ("Trusted base: the gosym engine in /verif/engine (SSA interpreter, term simplifier, intrinsic models of sync, "
         "sync/atomic, time, strings.Builder, internal/bytealg, fmt/log stubs), golang.org/x/tools go/ssa, z3 4.8.12 "
         "(cvc5 1.0 and z3 5.1.0 cross-check assertion queries in the thorough tier). Counterexamples are replayed "
         "natively against the real build before being reported; sampled path models are replayed natively and in the "
         "engine's concrete mode and compared on every run (traces_validated_against_impl). ")

import sys
sys.path.insert(0, '/verif/tools')
from claims import CLAIMED, NA, NA_DEFAULT
from claims2 import CLAIMED2
CLAIMED = dict(CLAIMED); CLAIMED.update(CLAIMED2)

def main():
    props = [json.loads(l) for l in open('/verif/properties.jsonl')]
    checks, na = [], []
    for p in props:
        pid = p['id']
        if pid in CLAIMED:
            tech, text, note, ref = CLAIMED[pid]
            checks.append({
                "property_id": pid,
                "quick_cmd": f"./check {pid} quick",
                "thorough_cmd": f"./check {pid} thorough",
                "evidence_file": f"/verif/evidence/{pid}.json",
                "replay_cmd_template": "./check replay {path}",
                "engine": "gosym",
                "level_claimed": {"category": "model_checking", "text": text, "design_ref": "DESIGN.md section " + ref},
                "level_note": TRUST + note,
                "technique": tech,
            })
        else:
            na.append({"property_id": pid, "reason": NA.get(pid, NA_DEFAULT)})
    m = {
        "version": 1,
        "setup_cmd": SETUP,
        "hooks": {"guard": "verif", "enable": "no source hooks: harnesses are injected as go/packages overlay files (virtual /repo/<pkg>/zz_verif_*.go) for the engine and with `go test -overlay` for native replay; nothing is written into /repo", "baseline_off_cmd": BASELINE, "source_commits": [], "add_only": True},
        "engines": [{"name": "gosym", "path": "/verif/engine", "serves_properties": [c["property_id"] for c in checks],
                     "kind_free_text": "own Go-SSA path-forking symbolic interpreter (golang.org/x/tools v0.29.0 go/ssa) emitting SMT-LIB2 bit-vector queries to z3 4.8.12 (cvc5 1.0 / z3 5.1.0 cross-check); harnesses are in-package Go overlay files executed both symbolically and natively (replay)"}],
        "checks": checks,
        "notes": "Exit codes: 0 held within bounds; 1 + VIOLATION line (counterexample replayed first: natively with go test -overlay; for the command-line tools against the real binaries; for harnesses that depend on substituted functions or on a pre-emptive schedule by concrete re-execution of the real code in the engine - DESIGN.md 8.2); 2 + INCONCLUSIVE line (harness no longer loads against the tree, solver unknown, bound exceeded, counterexample not reproduced) - never on the unchanged tree. Known findings: /verif/known_findings.txt.",
        "not_applicable": na,
    }
    json.dump(m, open('/verif/MANIFEST.json', 'w'), indent=1)
    print("claimed", len(checks), "not_applicable", len(na))

if __name__ == '__main__':
    main()
