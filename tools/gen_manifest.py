#!/usr/bin/env python3
"""Generates /verif/MANIFEST.json from the table below (one entry per property)."""
import json, sys

SETUP = "cd /verif/engine && GOFLAGS=-mod=mod GOPROXY=off GOSUMDB=off GOTOOLCHAIN=local CGO_ENABLED=0 go build -o ../bin/vcheck ./cmd/vcheck"
BASELINE = "cd /repo && GOFLAGS=-mod=mod go test -json -vet=off -count=1 -timeout 25m ./..."

TRUST = ("Trusted base: the gosym engine in /verif/engine (SSA interpreter, term simplifier, intrinsic models of sync, "
         "sync/atomic, time, strings.Builder, internal/bytealg, fmt/log stubs), golang.org/x/tools go/ssa, z3 4.8.12 "
         "(cvc5 1.0 and z3 5.1.0 cross-check assertion queries in the thorough tier). Counterexamples are replayed "
         "natively against the real build before being reported; sampled path models are replayed natively and in the "
         "engine's concrete mode and compared on every run (traces_validated_against_impl). ")

# id -> (claimed?, technique, level text, level note, design ref)
CLAIMED = {
 "C20": ("SSA->SMT symbolic execution of packets1.ReadPacket on a datagram of symbolic length 0..8192 with all bytes symbolic; panic-freedom as assertion",
         "Bounded symbolic execution (model_checking): every feasible path of ReadPacket, Header.Unpack and the 28 Unpack methods is enumerated with the datagram length and all 8192 bytes symbolic; each bounds check / slice expression is a solver query, so absence of a panic path is decided for every datagram up to the transport maximum, not sampled.",
         "Bounds: datagram length 0..8192. Outside: String()/logging; datagrams larger than the transport delivers.", "4 C20"),
 "C21": ("SSA->SMT symbolic execution of every packet constructor + Pack + ReadPacket with all field values symbolic; round-trip equality, length-form and length-arithmetic assertions",
         "Bounded symbolic execution (model_checking): for each of the 28 packet types and each listed size of the variable field, all flags, IDs, codes and content bytes are symbolic; decode(encode(p)) == p field by field (header included), length field == datagram size and 1-octet form iff size <= 255 are solver-decided; header length arithmetic is decided with the variable-part length itself symbolic over 0..65531; the short-topic bijection over all 2-byte names / 16-bit IDs.",
         "Bounds: variable field sizes quick 0..8, 245..258, 7168; thorough 0..300, 1024, 7168. Sizes in between are covered by the symbolic length arithmetic only.", "4 C21"),
 "C22": ("SSA->SMT symbolic execution of packets1.ReadPacket (+ Pack of the result) against an independent reference parser, datagram length and bytes symbolic",
         "Bounded symbolic execution (model_checking), differential: on every path where the real decoder accepts a datagram (length symbolic 0..8192, all bytes symbolic) the reference parser written from the MQTT-SN 1.2 byte layout must accept it too and every scalar field / variable-field length / buffer aliasing must agree; for datagrams of n symbolic bytes (n listed) contents are compared byte by byte and Pack() of the decoded packet must reproduce type and body up to the three allowed differences.",
         "Bounds: re-encode harness n in 0..24, 253..262 (quick) / 0..300 (thorough) with a length field equal to n in both header forms; other length-field values are covered by the symbolic-length fields harness. Reference parser (harness/shared/sn.go.tmpl) is part of the trusted base.", "4 C22"),
}

NA_DEFAULT = "check not built yet in this session; planned as described in DESIGN.md section 4 (solver-based, no other technique will be substituted)"
NA = {}

def main():
    props = [json.loads(l) for l in open('/verif/properties.jsonl')]
    checks, na = [], []
    for p in props:
        pid = p['id']
        if pid in CLAIMED:
            tech, text, note, ref = CLAIMED[pid]
            checks.append({
                "property_id": pid,
                "quick_cmd": f"./check {pid} quick",
                "thorough_cmd": f"./check {pid} thorough",
                "evidence_file": f"/verif/evidence/{pid}.json",
                "replay_cmd_template": "./check replay {path}",
                "engine": "gosym",
                "level_claimed": {"category": "model_checking", "text": text, "design_ref": "DESIGN.md section " + ref},
                "level_note": TRUST + note,
                "technique": tech,
            })
        else:
            na.append({"property_id": pid, "reason": NA.get(pid, NA_DEFAULT)})
    m = {
        "version": 1,
        "setup_cmd": SETUP,
        "hooks": {"guard": "verif", "enable": "no source hooks: harnesses are injected as go/packages overlay files (virtual /repo/<pkg>/zz_verif_*.go) for the engine and with `go test -overlay` for native replay; nothing is written into /repo", "baseline_off_cmd": BASELINE, "source_commits": [], "add_only": True},
        "engines": [{"name": "gosym", "path": "/verif/engine", "serves_properties": [c["property_id"] for c in checks],
                     "kind_free_text": "own Go-SSA path-forking symbolic interpreter (golang.org/x/tools v0.29.0 go/ssa) emitting SMT-LIB2 bit-vector queries to z3 4.8.12 (cvc5 1.0 / z3 5.1.0 cross-check); harnesses are in-package Go overlay files executed both symbolically and natively (replay)"}],
        "checks": checks,
        "notes": "Exit codes: 0 held within bounds; 1 + VIOLATION line (natively replayed counterexample); 2 + INCONCLUSIVE line (harness no longer loads against the tree, solver unknown, bound exceeded) - never on the unchanged tree. Known findings: /verif/known_findings.txt.",
        "not_applicable": na,
    }
    json.dump(m, open('/verif/MANIFEST.json', 'w'), indent=1)
    print("claimed", len(checks), "not_applicable", len(na))

if __name__ == '__main__':
    main()
