#!/bin/sh
# tools/verify_seed.sh <seed-name> [full] : in a scratch worktree of /repo HEAD, confirm that
#  (1) the demo passes without the patch, (2) the patch applies, builds, (3) the demo fails with it,
#  (4) [full] the existing test suite still passes with the patch (demo removed).
seed=$1; full=$2
export GOFLAGS=-mod=mod GOPROXY=off GOSUMDB=off GOTOOLCHAIN=local
sd=/verif/seeded/$seed
wt=/tmp/vs/$seed
rm -rf $wt; mkdir -p /tmp/vs
git -C /repo worktree add -q --detach $wt HEAD || exit 2
pkg=$(grep -m1 '^package ' $sd/zz_seed_demo_test.go | awk '{print $2}')
dir=$pkg
[ -f $sd/pkgdir ] && dir=$(cat $sd/pkgdir)
cp $sd/zz_seed_demo_test.go $wt/$dir/
cd $wt
r1=$(go test -vet=off -count=1 -run 'Seed|ZZ' ./$dir/ 2>&1 | tail -1)
echo "demo without patch: $r1"
if git apply --check $sd/patch.diff 2>/dev/null; then git apply $sd/patch.diff; else git apply -3 $sd/patch.diff 2>&1 | tail -1; fi
go build ./... || echo "BUILD FAILS"
r2=$(go test -vet=off -count=1 -run 'Seed|ZZ' ./$dir/ 2>&1 | tail -1)
echo "demo with patch:    $r2"
if [ "$full" = "full" ]; then
  rm $wt/$dir/zz_seed_demo_test.go
  go test -vet=off -count=1 ./... 2>&1 | grep -v "no test files" | sed 's/^/  suite: /'
fi
cd /; git -C /repo worktree remove --force $wt
