#!/bin/sh
# tools/try_seed.sh <seed-name> <property-id>... : apply seeded patch to /repo, run quick checks, undo.
seed=$1; shift
cd /repo || exit 2
if ! git apply --check /verif/seeded/$seed/patch.diff 2>/dev/null; then
  if ! git apply -3 --check /verif/seeded/$seed/patch.diff 2>/dev/null; then echo "PATCH DOES NOT APPLY: $seed"; exit 3; fi
  git apply -3 /verif/seeded/$seed/patch.diff
else
  git apply /verif/seeded/$seed/patch.diff
fi
for id in "$@"; do
  # the evidence file is rewritten by every run: keep the one from the unchanged tree
  [ -f /verif/evidence/$id.json ] && cp /verif/evidence/$id.json /verif/build/evidence_$id.keep
  (cd /verif && ./check $id ${TIER:-quick} 2>&1 | grep -E "^(VIOLATION|INCONCLUSIVE|HELD|KNOWN|property=)" | cut -c1-300 | head -12; echo "[$seed/$id] exit=$?")
  [ -f /verif/build/evidence_$id.keep ] && mv /verif/build/evidence_$id.keep /verif/evidence/$id.json
done
git -C /repo reset -q --hard HEAD; git -C /repo status --short | head
