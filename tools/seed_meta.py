#!/usr/bin/env python3
"""Writes seeded/<seed>/meta.json from notes.md, seeded/MAP and seeded/RESULTS.md."""
import json, os, re
root = '/verif/seeded'
rows = {}
if os.path.exists(root + '/RESULTS.md'):
    for l in open(root + '/RESULTS.md'):
        m = re.match(r'\| (\S+) \|(.*)\|\s*$', l)
        if m and m.group(1) not in ('seed', '---'):
            rows[m.group(1)] = m.group(2).strip()
checks = {}
for l in open(root + '/MAP'):
    if l.startswith('#') or not l.strip():
        continue
    f = l.split()
    checks[f[0]] = f[1:]
for seed in sorted(os.listdir(root)):
    d = os.path.join(root, seed)
    if not os.path.isdir(d):
        continue
    notes = open(d + '/notes.md').read() if os.path.exists(d + '/notes.md') else ''
    # the paragraph that says what is needed for the change to manifest
    needs = ''
    paras = re.split(r'\n\s*\n', notes)
    for i, p in enumerate(paras):
        if re.search(r'(?i)(what .*(trigger|needed|manifest)|trigger|to manifest|needs)', p.split('\n')[0]):
            needs = p if len(p.split('\n')) > 1 or i + 1 >= len(paras) else p + '\n' + paras[i + 1]
            break
    if not needs:
        for p in paras:
            if re.search(r'(?i)(trigger|manifest)', p):
                needs = p
                break
    files = [l[6:].strip() for l in open(d + '/patch.diff') if l.startswith('+++ b/')] if os.path.exists(d + '/patch.diff') else []
    meta = {
        'seed': seed,
        'property': seed[:3],
        'files_changed': files,
        'needs_to_manifest': re.sub(r'\s+', ' ', needs).strip()[:900],
        'author': 'sub-agent given only the property text and a scratch clone of /repo (tools/seed_prompt.py)',
        'checks_run': ['./check %s quick' % c for c in checks.get(seed, [])],
        'how_run': 'tools/try_seed.sh %s %s  (git apply to /repo, run the checks, git reset --hard)' % (seed, ' '.join(checks.get(seed, []))),
        'result': rows.get(seed, 'not run yet'),
        'confirmed_by_me': 'existing test suite passes with the patch, demonstration test fails with it and passes without it (tools/verify_seed.sh %s)' % seed,
    }
    json.dump(meta, open(d + '/meta.json', 'w'), indent=1)
    print(seed, meta['result'][:100])
