#!/bin/sh
# tools/import_seed.sh <seed-name> : copy a sub-agent's deliverables from /tmp/wt/<seed>/SEED into seeded/<seed>,
# verify them in a scratch worktree (tools/verify_seed.sh full), remove the agent's worktree.
seed=$1
src=/tmp/wt/$seed/SEED
[ -f $src/patch.diff ] || { echo "no patch in $src"; exit 2; }
mkdir -p /verif/seeded/$seed
cp $src/patch.diff /verif/seeded/$seed/
cp $src/notes.md /verif/seeded/$seed/ 2>/dev/null
demo=$(ls $src/*_test.go | head -1)
cp $demo /verif/seeded/$seed/zz_seed_demo_test.go
# the package directory the demonstration belongs to: where the agent left it in its worktree
d=$(cd /tmp/wt/$seed && find . -name zz_seed_demo_test.go -not -path './SEED/*' | head -1 | xargs dirname | sed 's|^\./||')
[ -n "$d" ] && echo $d > /verif/seeded/$seed/pkgdir
git -C /repo worktree remove --force /tmp/wt/$seed
/verif/tools/verify_seed.sh $seed full
