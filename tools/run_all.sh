#!/bin/sh
# tools/run_all.sh [quick|thorough] [ids...] : run every claimed check, print one line each
tier=${1:-quick}; shift
ids="$@"
[ -z "$ids" ] && ids=$(python3 -c "import json;print(' '.join(c['property_id'] for c in json.load(open('/verif/MANIFEST.json'))['checks']))")
for id in $ids; do
  s=$(date +%s)
  out=$(cd /verif && ./check $id $tier 2>&1); rc=$?
  e=$(date +%s)
  echo "$id rc=$rc $((e-s))s $(echo "$out" | grep -E '^(HELD|VIOLATION|INCONCLUSIVE|KNOWN)' | head -3 | cut -c1-160 | tr '\n' '|')"
done
