#!/usr/bin/env python3
# prints the prompt handed to a seeding sub-agent: only the property text and its worktree
import json,sys
pid=sys.argv[1]; n=sys.argv[2] if len(sys.argv)>2 else ""
for l in open('/verif/properties.jsonl'):
    p=json.loads(l)
    if p['id']==pid: break
wt=f"/tmp/wt/{pid}{n}"
print(f"""You are helping test a verification effort by writing a *seeded defect* (a mutation) for the Go project energomonitor/bisquitt (an MQTT-SN 1.2 transparent gateway, client library and CLI tools; MQTT-SN over UDP/DTLS <-> MQTT over TCP).

Your private scratch git worktree of the project is at {wt} . Work ONLY inside that directory (never touch /repo or /verif, and do not read anything under /verif). The sandbox is offline; in every shell call first run:
  export GOFLAGS=-mod=mod GOPROXY=off GOSUMDB=off GOTOOLCHAIN=local
The project builds with `go build ./...` and its tests run with `go test -vet=off -count=1 ./...` (about 45 s; run from {wt}).

The semantic property to break:

  Title: {p['title']}
  Statement: {p['statement']}
  Quantified over: {p['quantifier']['text']}
  Relevant files: {', '.join(p['anchors']['files'])}

Task: make a small, realistic change to the project's non-test source code (the kind of slip a maintainer could make in a refactor or a "fix") such that
  1. the project still compiles and the ENTIRE existing test suite still passes (run it and confirm), and
  2. the property above is now violated, but only under something specific: an unusual input or boundary value, a particular multi-step sequence of operations, a particular interleaving/timing, or two cooperating sites that each look fine alone. Do NOT make a change that ordinary use or the existing tests would expose at once. Do not merely exploit a defect that already exists in the unmodified code: your demonstration must PASS on the unmodified code.
  3. provide a demonstration: a new Go test file (in-package `_test.go`, name it zz_seed_demo_test.go in the relevant package directory) whose test FAILS with your change and PASSES on the unmodified code. Verify both yourself (use `git stash` / `git stash pop` or `git diff > p.diff; git checkout -- <files>` to compare).

Deliverables, all inside {wt}/SEED/ (create the directory):
  - patch.diff : `git diff` of the non-test source change only (must apply with `git apply` to a clean checkout)
  - the demonstration test file (copy of zz_seed_demo_test.go) plus a line in notes saying which package directory it belongs in
  - notes.md : what the change is, which part of the property it breaks, exactly what is needed for it to manifest, and the exact commands you ran with their results (existing tests with the change: pass; demo with change: fail; demo without change: pass).
Leave the worktree with your source change applied and the demo test in place. Keep the change minimal (a few lines). Reply with a short summary (files changed, what triggers it).""")
