package sym

import (
	"fmt"
	"go/types"
	"os"
	"sort"
	"strings"
	"sync"

	"golang.org/x/tools/go/ssa"
)

// ---------------------------------------------------------------------------
// Worker: term table + solver, one per OS-level goroutine running instances.

type Worker struct {
	E      *Engine
	C      *Ctx
	S      *Solver
	cross  []*Solver
	Disagreements int
	CrossUnknown  int // assertion queries on which a cross-check solver answered unknown
	pool   []Model // recent models, tried before asking the solver
	strObj map[string]*Obj
	Opts   Options

	reachedIf map[string]bool
}

type Options struct {
	Solver        string
	TimeoutMs     int
	MaxPaths      int
	MaxSteps      int // SSA instructions per path
	LoopBound     int // max visits of one block per frame
	MaxConcretize int // max distinct values enumerated for one term
	MapOrderFixed bool
	Concrete      Model // when non-nil: concrete mode (validation): nondets come from this tape
	ConcreteTape  *Tape
	Trace         bool
	Layer         int // 1, 2, 3
	CtxBound      int // pre-emption bound for layer 3
	Regions       []Region
	Cross         []string // extra solvers on which assertion queries are re-discharged
	KeepTapes     int      // sample this many path models per instance as validation tapes
	AssertPrefix  string   // only assertions whose label starts with this are active
}

func NewWorker(e *Engine, o Options) (*Worker, error) {
	if o.Solver == "" {
		o.Solver = "z3"
	}
	if o.TimeoutMs == 0 {
		o.TimeoutMs = 60000
	}
	if o.MaxPaths == 0 {
		o.MaxPaths = 20000
	}
	if o.MaxSteps == 0 {
		o.MaxSteps = 2000000
	}
	if o.LoopBound == 0 {
		o.LoopBound = 64
	}
	if o.MaxConcretize == 0 {
		o.MaxConcretize = 300
	}
	c := NewCtx()
	s, err := NewSolver(c, o.Solver, o.TimeoutMs)
	if err != nil {
		return nil, err
	}
	w := &Worker{E: e, C: c, S: s, strObj: map[string]*Obj{}, Opts: o, reachedIf: map[string]bool{}}
	for _, name := range o.Cross {
		cs, err := NewSolver(c, name, o.TimeoutMs)
		if err != nil {
			return nil, err
		}
		w.cross = append(w.cross, cs)
	}
	return w, nil
}

func (w *Worker) Close() {
	w.S.Close()
	for _, s := range w.cross {
		s.Close()
	}
}

type SolverStat struct {
	Queries int
	Seconds float64
	Errors  []string
}

func (w *Worker) SolverStats() map[string]SolverStat {
	out := map[string]SolverStat{}
	for _, s := range append([]*Solver{w.S}, w.cross...) {
		out[s.Name] = SolverStat{s.Queries, s.Time.Seconds(), s.Errors}
	}
	return out
}

// checkAssert discharges an assertion query on the main solver and, when cross
// solvers are configured, on each of them; verdicts must agree.
func (p *Path) checkAssert(extra ...*Term) (Result, Model) {
	res, m := p.check(extra...)
	if len(p.W.cross) > 0 {
		as := append(append([]*Term{}, p.pc...), extra...)
		for _, cs := range p.W.cross {
			r2, _ := cs.Check(as)
			if r2 == Unknown && res != Unknown {
				// the second solver gave up (time limit, unsupported construct): the main
				// solver's verdict stands un-cross-checked for this query; counted, not an alarm
				p.W.CrossUnknown++
				continue
			}
			if r2 != res {
				p.W.Disagreements++
				p.inconcl = append(p.inconcl, fmt.Sprintf("solver disagreement: %s=%s %s=%s", p.W.S.Name, res, cs.Name, r2))
			}
		}
	}
	return res, m
}

// Label returns the term bound by vLabel(name, ...) on this path.
func (p *Path) Label(name string) (*Term, bool) {
	t, ok := p.labels[name]
	return t, ok
}

// ---------------------------------------------------------------------------
// Decisions: the fork points of a path. Exploration is depth-first by
// re-execution: a path is re-run from the start following the recorded prefix.

type decision struct {
	opts   []int // option codes (branch: 1 = true side, 0 = false side; choice: 0..n-1)
	idx    int
	val    uint64  // payload (concretisation candidate)
	models []Model // witness per option (may be nil)
	kind   string
}

type pathEnd struct {
	status string // "done", "infeasible", "inconclusive", "blocked", "panic"
	reason string
}

type goPanic struct {
	val  Value
	site string
	desc string
}

// Violation is a refuted assertion with the witness model.
type Violation struct {
	Label   string
	Model   Model
	Tape    *Tape
	Site    string
	InKnown string // name of known-finding region, or ""
	Msg     string
	Pkg     string
	CrashOK bool // a native process crash counts as reproduction (goroutine panic)
}

type TapeEntry struct {
	Label string `json:"label"`
	W     int    `json:"w"`
	Val   uint64 `json:"val"`
	name  string
}

// Tape is what a native replay needs: nondet values in creation order + choices.
type Tape struct {
	Harness string      `json:"harness"`
	Args    []int64     `json:"args"`
	Values  []TapeEntry `json:"values"`
	Choices []int       `json:"choices"`
	// scheduling decisions (pre-emptions, task order), replayed by the engine's concrete mode
	Sched []int `json:"sched,omitempty"`
	Assert  string      `json:"assert,omitempty"`
	// virtual-time deltas (ns) of the vAdvance calls on the path and whether a
	// timer fired, so that a native replay can wait for exactly that long
	Advances []int64 `json:"advances,omitempty"`
	AdvFired []bool  `json:"adv_fired,omitempty"`
}

type advRec struct {
	before, after *Term
	fired         bool
}

type Observation struct {
	Label string
	Val   string
}

// Path is the state of one execution.
type Path struct {
	W   *Worker
	C   *Ctx
	pc  []*Term
	dec []decision
	pos int

	model      Model
	modelValid bool

	nvar    int
	nobj    int
	globals map[*ssa.Global]*Obj
	initRun map[*ssa.Package]bool

	steps int

	// side tables of modelled library objects, keyed by object identity
	side map[sideKey]interface{}

	// nondet log (for tapes)
	nondets []TapeEntry
	choices []int
	sched   []int // every scheduling decision taken (Choose of a kind other than vChoose), in order
	labels  map[string]*Term

	// results
	violations []Violation
	reached    map[string]bool
	obs        []Observation
	inconcl    []string
	funcsSeen  map[*ssa.Function]bool
	covered    map[string]bool // labels of asserts evaluated
	assertsN   int
	assertsNT  int // non-trivial (reached the solver or the model evaluator)
	spawned    []*FuncVal

	// tasks and time
	tasks   []*Task
	cur     *Task
	now     *Term // virtual clock, ns, width 64
	timers  []*vTimer
	kill    chan struct{}
	dead    bool
	held    map[sideKey]int // L1 lock bookkeeping
	preempt int

	harness string
	hargs   []int64

	wg           sync.WaitGroup
	pendingEnd   *pathEnd
	pendingCrash interface{}
	schedNondet  bool
	ntimer       int
	timerTasks   int
	initNotes    []string
	preemptBound int
	preemptUsed  int
	races        []string
	shared       map[*Obj]bool
	mapOrderFixed bool
	advances     []advRec
	delayVars    []*Term

	taskPanicLabel string
}

type sideKey struct {
	o *Obj
	i int
}

func (p *Path) fail(status, format string, a ...interface{}) {
	panic(pathEnd{status, fmt.Sprintf(format, a...)})
}

func (p *Path) unsupported(format string, a ...interface{}) {
	panic(pathEnd{"inconclusive", "unsupported: " + fmt.Sprintf(format, a...)})
}

// ---------------------------------------------------------------------------
// model handling

func (p *Path) pcHolds(m Model) bool {
	ev := p.C.NewEvaluator(m)
	for _, c := range p.pc {
		if ev(c) != 1 {
			return false
		}
	}
	return true
}

// getModel returns a model of the current path condition.
func (p *Path) getModel() Model {
	if p.modelValid {
		return p.model
	}
	for i := len(p.W.pool) - 1; i >= 0; i-- {
		if p.pcHolds(p.W.pool[i]) {
			p.model, p.modelValid = p.W.pool[i], true
			return p.model
		}
	}
	res, m := p.W.S.Check(p.pc)
	switch res {
	case Sat:
		p.setModel(m)
		return m
	case Unsat:
		p.fail("infeasible", "path condition unsatisfiable")
	default:
		p.fail("inconclusive", "solver unknown on path condition")
	}
	return nil
}

func (p *Path) setModel(m Model) {
	p.model, p.modelValid = m, true
	if len(p.W.pool) >= 8 {
		p.W.pool = p.W.pool[1:]
	}
	p.W.pool = append(p.W.pool, m)
}

// check asks the solver for pc ∧ extra.
func (p *Path) check(extra ...*Term) (Result, Model) {
	as := make([]*Term, 0, len(p.pc)+len(extra))
	as = append(as, p.pc...)
	as = append(as, extra...)
	return p.W.S.Check(as)
}

func (p *Path) addPC(c *Term) {
	if c.IsTrue() {
		return
	}
	p.pc = append(p.pc, c)
}

// Branch decides a symbolic condition, forking when both sides are feasible.
func (p *Path) Branch(cond *Term) bool {
	if cond.IsConst() {
		return cond.Val == 1
	}
	if p.W.Opts.Concrete != nil {
		return p.C.Eval(cond, p.W.Opts.Concrete) == 1
	}
	if p.pos < len(p.dec) {
		d := &p.dec[p.pos]
		p.pos++
		side := d.opts[d.idx] == 1
		if side {
			p.addPC(cond)
		} else {
			p.addPC(p.C.Not(cond))
		}
		if p.pos == len(p.dec) && d.models != nil && d.models[d.idx] != nil {
			p.model, p.modelValid = d.models[d.idx], true
		} else {
			p.modelValid = false
		}
		return side
	}
	m := p.getModel()
	vt := p.C.Eval(cond, m) == 1
	var other *Term
	if vt {
		other = p.C.Not(cond)
	} else {
		other = cond
	}
	res, m2 := p.check(other)
	d := decision{kind: "branch"}
	first := 0
	if vt {
		first = 1
	}
	switch res {
	case Sat:
		d.opts = []int{first, 1 - first}
		d.models = []Model{m, m2}
	case Unsat:
		d.opts = []int{first}
		d.models = []Model{m}
	default:
		p.inconcl = append(p.inconcl, "solver unknown at branch")
		d.opts = []int{first}
		d.models = []Model{m}
	}
	p.dec = append(p.dec, d)
	p.pos++
	if vt {
		p.addPC(cond)
	} else {
		p.addPC(p.C.Not(cond))
	}
	return vt
}

// Choose makes an n-way nondeterministic choice (no constraint attached).
func (p *Path) Choose(n int, kind string) int {
	r := p.choose(n, kind)
	if kind != "vChoose" && n > 1 {
		p.sched = append(p.sched, r)
	}
	return r
}

func (p *Path) choose(n int, kind string) int {
	if n <= 1 {
		return 0
	}
	if p.W.Opts.Concrete != nil {
		t := p.W.Opts.ConcreteTape
		if kind == "vChoose" && t != nil && len(p.choices) < len(t.Choices) {
			return t.Choices[len(p.choices)] % n
		}
		// scheduling decisions (pre-emptions, task order) are replayed from the tape
		if kind != "vChoose" && t != nil && len(p.sched) < len(t.Sched) {
			return t.Sched[len(p.sched)] % n
		}
		return 0
	}
	if p.pos < len(p.dec) {
		d := &p.dec[p.pos]
		p.pos++
		if len(d.opts) != n && d.kind != "branch" {
			// structure changed between runs: engine bug
			p.fail("inconclusive", "decision replay mismatch (%s: %d vs %d)", kind, len(d.opts), n)
		}
		return d.opts[d.idx]
	}
	d := decision{kind: kind}
	for i := 0; i < n; i++ {
		d.opts = append(d.opts, i)
	}
	p.dec = append(p.dec, d)
	p.pos++
	return 0
}

// Concretize returns a concrete value of t feasible under the path condition,
// forking over all feasible values (bounded).
func (p *Path) Concretize(t *Term, what string) uint64 {
	for n := 0; ; n++ {
		if t.IsConst() {
			return t.Val
		}
		if p.W.Opts.Concrete != nil {
			return p.C.Eval(t, p.W.Opts.Concrete)
		}
		if n > p.W.Opts.MaxConcretize {
			p.fail("inconclusive", "concretisation budget exceeded for %s", what)
		}
		var v uint64
		if p.pos < len(p.dec) {
			v = p.dec[p.pos].val
		} else {
			v = p.C.Eval(t, p.getModel())
		}
		eq := p.C.Eq(t, p.C.Const(t.W, v))
		// Branch consumes/creates the decision; store the payload on creation.
		if p.pos >= len(p.dec) {
			if eq.IsConst() {
				if eq.Val == 1 {
					return v
				}
				continue
			}
			taken := p.Branch(eq)
			p.dec[len(p.dec)-1].val = v
			p.dec[len(p.dec)-1].kind = "concretize"
			if taken {
				return v
			}
			continue
		}
		if p.Branch(eq) {
			return v
		}
	}
}

func (p *Path) ConcInt(t *Term, what string) int {
	v := p.Concretize(t, what)
	return int(signExt(v, t.W))
}

// Assume restricts the path to cond; ends the path if infeasible.
func (p *Path) Assume(cond *Term) {
	if cond.IsTrue() {
		return
	}
	if cond.IsFalse() {
		p.fail("infeasible", "assume false")
	}
	if p.W.Opts.Concrete != nil {
		if p.C.Eval(cond, p.W.Opts.Concrete) != 1 {
			p.fail("infeasible", "tape does not satisfy assumption")
		}
		return
	}
	if p.pos < len(p.dec) {
		// replaying: feasibility was established when the prefix was first run
		p.addPC(cond)
		p.modelValid = false
		return
	}
	m := p.getModel()
	if p.C.Eval(cond, m) == 1 {
		p.addPC(cond)
		return
	}
	res, m2 := p.check(cond)
	switch res {
	case Sat:
		p.addPC(cond)
		p.setModel(m2)
	case Unsat:
		p.fail("infeasible", "assumption infeasible")
	default:
		p.fail("inconclusive", "solver unknown at assume")
	}
}

// Region is a known-finding region: a predicate over labelled harness values.
type Region struct {
	Name   string
	Assert string
	Pred   func(p *Path) (*Term, bool) // ok=false: a label is missing on this path
	Text   string
}

// Assert checks cond on the current path; a refutation is recorded.
func (p *Path) Assert(cond *Term, label, site string) {
	if pf := p.W.Opts.AssertPrefix; pf != "" && !strings.HasPrefix(label, pf) {
		// an assertion that belongs to another property's check: neither checked
		// nor assumed here, so it cannot mask anything
		return
	}
	p.assertsN++
	if p.covered == nil {
		p.covered = map[string]bool{}
	}
	p.covered[label] = true
	if cond.IsTrue() {
		return
	}
	p.assertsNT++
	if p.W.Opts.Concrete != nil {
		if p.C.Eval(cond, p.W.Opts.Concrete) != 1 {
			p.violations = append(p.violations, Violation{Label: label, Site: site})
		}
		return
	}
	neg := p.C.Not(cond)
	// regions that apply to this assertion
	var regs []Region
	var regTerms []*Term
	outside := neg
	for _, r := range p.W.Opts.Regions {
		if r.Assert != label {
			continue
		}
		rt, ok := r.Pred(p)
		if !ok {
			continue
		}
		regs = append(regs, r)
		regTerms = append(regTerms, rt)
		outside = p.C.And(outside, p.C.Not(rt))
	}
	record := func(m Model, known string) {
		p.violations = append(p.violations, Violation{Label: label, Model: m, Tape: p.tapeFor(m, label), Site: site, InKnown: known})
	}
	if p.pos >= len(p.dec) { // do not re-query while replaying a prefix: already reported
		if !outside.IsFalse() {
			res, m := p.checkAssert(outside)
			switch res {
			case Sat:
				record(p.replayable(m, outside), "")
			case Unknown:
				p.inconcl = append(p.inconcl, "solver unknown at assertion "+label)
			}
		}
		for i, r := range regs {
			res, m := p.checkAssert(p.C.And(neg, regTerms[i]))
			switch res {
			case Sat:
				record(m, r.Name)
			case Unknown:
				p.inconcl = append(p.inconcl, "solver unknown at assertion "+label+" region "+r.Name)
			}
		}
	}
	// continue under the assumption that the assertion held
	p.Assume(cond)
}

func (p *Path) tapeFor(m Model, assert string) *Tape {
	t := &Tape{Harness: p.harness, Args: p.hargs, Assert: assert}
	for _, e := range p.nondets {
		e.Val = m[e.name] & maskB(e.W)
		t.Values = append(t.Values, e)
	}
	t.Choices = append(t.Choices, p.choices...)
	t.Sched = append(t.Sched, p.sched...)
	ev := p.C.NewEvaluator(m)
	for _, a := range p.advances {
		t.Advances = append(t.Advances, int64(ev(a.after)-ev(a.before)))
		t.AdvFired = append(t.AdvFired, a.fired)
	}
	return t
}

// replayable tries to find, for the same assertions, a model in which every
// symbolic delay lies in [20 ms, 200 ms], so that a native replay takes little
// real time; it falls back to the given model.
func (p *Path) replayable(m Model, extra ...*Term) Model {
	if len(p.delayVars) == 0 {
		return m
	}
	c := p.C
	// progressively wider windows: the orderings fixed by the path may not fit the narrowest one
	for _, win := range [][2]uint64{{100e6, 400e6}, {50e6, 1000e6}, {20e6, 3000e6}, {5e6, 10000e6}} {
		cons := append([]*Term{}, extra...)
		for _, d := range p.delayVars {
			cons = append(cons, c.And(c.Sle(c.Const(64, win[0]), d), c.Sle(d, c.Const(64, win[1]))))
		}
		if res, m2 := p.check(cons...); res == Sat {
			return m2
		}
	}
	// greedy, one delay at a time (a path may pin some delay to a value outside every window)
	cons := append([]*Term{}, extra...)
	best := m
	for _, d := range p.delayVars {
		for _, win := range [][2]uint64{{100e6, 400e6}, {20e6, 3000e6}} {
			try := append(append([]*Term{}, cons...), c.And(c.Sle(c.Const(64, win[0]), d), c.Sle(d, c.Const(64, win[1]))))
			if res, m2 := p.check(try...); res == Sat {
				cons, best = try, m2
				break
			}
		}
	}
	return best
}

// Nondet creates a fresh symbolic variable.
func (p *Path) Nondet(label string, w int) *Term {
	name := fmt.Sprintf("%s#%d", label, p.nvar)
	p.nvar++
	v := p.C.Var(name, w)
	p.nondets = append(p.nondets, TapeEntry{Label: label, W: w, name: name})
	if p.W.Opts.Concrete != nil {
		// concrete mode: the tape provides the value
		t := p.W.Opts.ConcreteTape
		i := len(p.nondets) - 1
		var val uint64
		if t != nil && i < len(t.Values) {
			val = t.Values[i].Val
		}
		p.W.Opts.Concrete[name] = val & maskB(w)
		return p.C.Const(w, val)
	}
	return v
}

func (p *Path) newObj(kind ObjKind, n int) *Obj {
	p.nobj++
	return &Obj{Slots: make([]Value, n), Kind: kind, ID: p.nobj}
}

// ---------------------------------------------------------------------------
// results of exploring one harness instance

type InstanceResult struct {
	Harness    string
	Args       []int64
	Paths      int
	Steps      int
	Status     map[string]int // path end status histogram
	Violations []Violation
	Reached    map[string]bool
	Inconcl    []string
	Funcs      map[string]bool
	Asserts    int
	AssertsNT  int
	NTPaths    int
	Covered    map[string]bool
	Samples    []string
	PanicSites map[string]int
	Obs        [][]Observation // per path (only kept in concrete mode)
	Pkg        string
	Tapes      []*Tape // sampled path models (validation)
	Failed     []string
	EndStatus  string
}

func (r *InstanceResult) Name() string {
	if len(r.Args) == 0 {
		return r.Harness
	}
	var s []string
	for _, a := range r.Args {
		s = append(s, fmt.Sprint(a))
	}
	return r.Harness + "(" + strings.Join(s, ",") + ")"
}

// Explore runs the harness function on all feasible paths.
func (w *Worker) Explore(fn *ssa.Function, args []int64) *InstanceResult {
	res := &InstanceResult{Harness: fn.Name(), Args: args, Status: map[string]int{}, Reached: map[string]bool{}, Funcs: map[string]bool{}, Covered: map[string]bool{}, PanicSites: map[string]int{}}
	var dec []decision
	seenViol := map[string]bool{}
	for {
		p := w.newPath(fn.Name(), args)
		p.dec = dec
		end := p.run(fn, args)
		res.Paths++
		res.Steps += p.steps
		res.Status[end.status]++
		if end.status == "inconclusive" {
			res.Inconcl = append(res.Inconcl, end.reason)
		}
		if end.status == "panic" {
			res.PanicSites[end.reason]++
		}
		res.Inconcl = append(res.Inconcl, p.inconcl...)
		for _, v := range p.violations {
			k := v.Label + "|" + v.InKnown
			if seenViol[k] && len(res.Violations) > 50 {
				continue
			}
			seenViol[k] = true
			res.Violations = append(res.Violations, v)
		}
		for k := range p.reached {
			res.Reached[k] = true
		}
		for k := range p.covered {
			res.Covered[k] = true
		}
		for f := range p.funcsSeen {
			res.Funcs[f.String()] = true
		}
		res.Asserts += p.assertsN
		res.AssertsNT += p.assertsNT
		if p.assertsN > 0 && len(p.dec) > 0 && (end.status == "done" || end.status == "panic") {
			// a distinct feasible path (distinct decision sequence) whose verdict
			// depended on at least one solver-decided branch, choice or assertion
			res.NTPaths++
		}
		if w.Opts.Concrete != nil {
			res.Obs = append(res.Obs, p.obs)
		}
		if len(res.Samples) < 3 {
			res.Samples = append(res.Samples, p.describe(end))
		}
		if w.Opts.Concrete == nil && len(res.Tapes) < w.Opts.KeepTapes && (end.status == "done" || end.status == "panic") {
			if tp := p.finalTape(); tp != nil {
				res.Tapes = append(res.Tapes, tp)
			}
		}
		if w.Opts.Concrete != nil {
			res.EndStatus = end.status
			for _, v := range p.violations {
				res.Failed = append(res.Failed, v.Label)
			}
		}
		dec = p.dec
		// backtrack
		for len(dec) > 0 {
			last := &dec[len(dec)-1]
			if last.idx+1 < len(last.opts) {
				last.idx++
				break
			}
			dec = dec[:len(dec)-1]
		}
		if len(dec) == 0 || w.Opts.Concrete != nil {
			break
		}
		if res.Paths >= w.Opts.MaxPaths {
			res.Inconcl = append(res.Inconcl, fmt.Sprintf("path budget %d exhausted", w.Opts.MaxPaths))
			break
		}
	}
	return res
}

func (p *Path) describe(end pathEnd) string {
	var sb strings.Builder
	fmt.Fprintf(&sb, "%s: %d decisions, %d constraints, %d steps, end=%s", p.harness, len(p.dec), len(p.pc), p.steps, end.status)
	if end.reason != "" {
		fmt.Fprintf(&sb, " (%s)", end.reason)
	}
	if len(p.pc) > 0 {
		n := len(p.pc)
		if n > 3 {
			n = 3
		}
		var cs []string
		for _, c := range p.pc[len(p.pc)-n:] {
			cs = append(cs, show(c, 3))
		}
		fmt.Fprintf(&sb, "; last constraints: %s", strings.Join(cs, " ; "))
	}
	return sb.String()
}

func (w *Worker) newPath(harness string, args []int64) *Path {
	p := &Path{W: w, C: w.C, globals: map[*ssa.Global]*Obj{}, initRun: map[*ssa.Package]bool{},
		side: map[sideKey]interface{}{}, labels: map[string]*Term{}, reached: map[string]bool{},
		funcsSeen: map[*ssa.Function]bool{}, harness: harness, hargs: args, held: map[sideKey]int{}}
	p.now = w.C.Const(64, 0)
	p.kill = make(chan struct{})
	if w.Opts.Concrete != nil {
		for k := range w.Opts.Concrete {
			delete(w.Opts.Concrete, k)
		}
	}
	return p
}

// run executes fn as the main task of a fresh path.
func (p *Path) run(fn *ssa.Function, args []int64) (end pathEnd) {
	main := p.newTask(nil)
	p.cur = main
	defer p.killTasks()
	defer func() {
		if r := recover(); r != nil {
			switch x := r.(type) {
			case pathEnd:
				end = x
			case *goPanic:
				end = pathEnd{"panic", x.site + ": " + x.desc}
			default:
				if os.Getenv("VDEBUG") != "" {
					fmt.Fprintln(os.Stderr, "engine crash:", r, "\ninterpreted stack:", main.stackString())
					panic(r)
				}
				end = pathEnd{"inconclusive", fmt.Sprintf("engine crash: %v at %s", r, main.stackString())}
			}
		}
	}()
	var vargs []Value
	for i, a := range args {
		pt := fn.Params[i].Type()
		w, _, ok := typeWidth(pt)
		if !ok {
			p.unsupported("harness parameter type %s", pt)
		}
		vargs = append(vargs, p.C.Const(w, uint64(a)))
	}
	main.call(fn, vargs, nil)
	return pathEnd{"done", ""}
}

func sortedKeys(m map[string]bool) []string {
	var out []string
	for k := range m {
		out = append(out, k)
	}
	sort.Strings(out)
	return out
}

var _ = types.Typ

func (t *Task) stackString() string {
	var sb strings.Builder
	for i := len(t.frames) - 1; i >= 0 && i >= len(t.frames)-8; i-- {
		sb.WriteString(t.frames[i].fn.String())
		sb.WriteString(" <- ")
	}
	return sb.String()
}

// finalTape turns a model of the complete path condition into a tape.
func (p *Path) finalTape() (tp *Tape) {
	defer func() {
		if r := recover(); r != nil {
			tp = nil
		}
	}()
	m := p.replayable(p.getModel())
	return p.tapeFor(m, "")
}

// ExploreConcrete runs the harness once, in concrete mode, on the given tape.
func (w *Worker) ExploreConcrete(fn *ssa.Function, tp *Tape) *InstanceResult {
	save := w.Opts
	w.Opts.Concrete = Model{}
	w.Opts.ConcreteTape = tp
	w.Opts.Regions = nil
	defer func() { w.Opts = save }()
	return w.Explore(fn, tp.Args)
}

// Summary renders the outcome of a concrete run for comparison with the native run.
func (r *InstanceResult) Summary() string {
	st := r.EndStatus
	if st == "infeasible" {
		st = "assume-failed"
	}
	var obs []string
	if len(r.Obs) > 0 {
		for _, o := range r.Obs[0] {
			obs = append(obs, o.Label+"="+o.Val)
		}
	}
	f := append([]string{}, r.Failed...)
	sort.Strings(f)
	return fmt.Sprintf("status=%s failures=%v reached=%v obs=%v", st, f, sortedKeys(r.Reached), obs)
}
