package sym

import (
	"fmt"
	"go/token"
	"go/types"
	"sync"

	"golang.org/x/tools/go/ssa"
)

type killed struct{}

type vTimer struct {
	id       int
	deadline *Term // ns, width 64
	fn       *FuncVal
	ch       *ChanObj
	period   *Term // ticker period or nil
	active   bool
	obj      *Obj // the time.Timer / time.Ticker object
	fired    int
}

type selState struct{ fired bool }

func (p *Path) newTask(fv *FuncVal, args ...Value) *Task {
	t := &Task{p: p, id: len(p.tasks), fn: fv, args: args, resume: make(chan struct{}, 1)}
	if fv == nil {
		t.isMain = true
		t.started = true
	}
	p.tasks = append(p.tasks, t)
	return t
}

var taskWG sync.WaitGroup

// start launches the OS goroutine of a non-main task (lazily, on first schedule).
func (t *Task) start() {
	t.started = true
	p := t.p
	p.wg.Add(1)
	go func() {
		defer p.wg.Done()
		defer func() {
			if r := recover(); r != nil {
				if _, ok := r.(killed); ok {
					return
				}
				switch x := r.(type) {
				case pathEnd:
					p.pendingEnd = &x
				case *goPanic:
					if p.taskPanicLabel != "" {
						// the harness declared that a crash of any goroutine violates this assertion
						p.recordTaskPanic(x, t.id)
						p.pendingEnd = &pathEnd{"done", "goroutine panic recorded as violation of " + p.taskPanicLabel}
					} else {
						p.pendingEnd = &pathEnd{"panic", x.site + ": " + x.desc + fmt.Sprintf(" (in goroutine %d)", t.id)}
					}
				default:
					p.pendingCrash = r
				}
				t.state = 2
				// hand control back to main, which re-raises
				main := p.tasks[0]
				p.cur = main
				main.resume <- struct{}{}
			}
		}()
		select {
		case <-t.resume:
		case <-p.kill:
			panic(killed{})
		}
		t.callFuncVal(t.fn, t.args)
		t.state = 2
		p.schedule(t)
	}()
}

func (p *Path) killTasks() {
	p.dead = true
	close(p.kill)
	p.wg.Wait()
}

// candidates returns the tasks that can run now.
func (p *Path) runnable(except *Task) []*Task {
	var out []*Task
	for _, t := range p.tasks {
		if t == except || t.state == 2 {
			continue
		}
		if t.state == 1 {
			if t.wake != nil && t.wake() {
				out = append(out, t)
			}
			continue
		}
		out = append(out, t)
	}
	return out
}

// schedule is called by the running task `from` when it blocks, yields or ends.
// It picks the next task and transfers control; it returns when `from` is
// scheduled again (never, if from is done).
func (p *Path) schedule(from *Task) {
	for {
		var cands []*Task
		for _, t := range p.runnable(nil) {
			if t.idleWait {
				continue
			}
			cands = append(cands, t)
		}
		if len(cands) == 0 {
			// nobody can run: an idle-waiting main resumes; otherwise time advances
			main := p.tasks[0]
			if main.idleWait {
				main.idleWait = false
				main.state = 0
				p.switchTo(from, main)
				return
			}
			if !p.fireNextTimer(from) {
				pe := pathEnd{"blocked", "deadlock: all goroutines blocked, no timer pending (" + p.blockedSummary() + ")"}
				if from.isMain {
					panic(pe)
				}
				p.pendingEnd = &pe
				from.state = 2
				p.switchTo(from, main)
				return
			}
			continue
		}
		next := cands[0]
		if len(cands) > 1 && p.schedNondet {
			next = cands[p.Choose(len(cands), "sched")]
		}
		if next.state == 1 {
			next.state = 0
			next.wake = nil
		}
		p.switchTo(from, next)
		return
	}
}

func (p *Path) blockedSummary() string {
	s := ""
	for _, t := range p.tasks {
		if t.state == 1 {
			s += fmt.Sprintf("g%d:%s ", t.id, t.blkWhy)
		}
	}
	return s
}

func (p *Path) switchTo(from, next *Task) {
	if next == from {
		return
	}
	p.cur = next
	if !next.started {
		next.start()
	}
	next.resume <- struct{}{}
	if from.state == 2 && !from.isMain {
		return // goroutine of a finished task simply ends
	}
	select {
	case <-from.resume:
	case <-p.kill:
		panic(killed{})
	}
	if from.isMain {
		if p.pendingCrash != nil {
			panic(p.pendingCrash)
		}
		if p.pendingEnd != nil {
			pe := *p.pendingEnd
			p.pendingEnd = nil
			panic(pe)
		}
	}
}

// blockUntil suspends the task until cond holds.
func (t *Task) blockUntil(cond func() bool, why string) {
	for !cond() {
		t.state = 1
		t.wake = cond
		t.blkWhy = why
		t.p.schedule(t)
		t.state = 0
	}
	t.wake = nil
}

// yield lets other runnable tasks run first (the caller stays runnable).
func (t *Task) yield() {
	p := t.p
	others := p.runnable(t)
	n := 0
	for _, o := range others {
		if !o.idleWait {
			n++
		}
	}
	if n == 0 {
		return
	}
	// put self at the end by temporarily marking blocked-with-true-condition
	t.state = 1
	t.wake = func() bool { return true }
	t.blkWhy = "yield"
	// pick among others only
	var cands []*Task
	for _, o := range others {
		if !o.idleWait {
			cands = append(cands, o)
		}
	}
	next := cands[0]
	if len(cands) > 1 && p.schedNondet {
		next = cands[p.Choose(len(cands), "sched")]
	}
	if next.state == 1 {
		next.state = 0
		next.wake = nil
	}
	if debugPreempt {
		fmt.Printf("YIELD g%d -> g%d (%s)\n", t.id, next.id, next.name)
	}
	p.switchTo(t, next)
	t.state = 0
	t.wake = nil
}

// runUntilIdle: main waits until every other task is blocked or done.
func (t *Task) runUntilIdle() {
	p := t.p
	if !t.isMain {
		p.fail("inconclusive", "vRunUntilIdle outside the main task")
	}
	any := false
	for _, o := range p.runnable(t) {
		_ = o
		any = true
	}
	if !any {
		return
	}
	t.idleWait = true
	t.state = 1
	t.wake = func() bool { return false }
	t.blkWhy = "idle-wait"
	p.schedule(t)
	t.state = 0
	t.wake = nil
	t.idleWait = false
}

func (t *Task) goStmt(fr *frame, x *ssa.Go) {
	p := t.p
	cc := &x.Call
	var fv *FuncVal
	var args []Value
	if cc.IsInvoke() {
		recv := t.get(fr, cc.Value).(IfaceVal)
		fn, rv := t.resolveInvoke(cc, recv, x.Pos())
		if fn == nil {
			p.unsupported("go on opaque method")
		}
		fv = &FuncVal{Fn: fn}
		args = append([]Value{rv}, t.evalArgs(fr, cc)...)
	} else {
		switch f := cc.Value.(type) {
		case *ssa.Function:
			fv = &FuncVal{Fn: f}
		case *ssa.Builtin:
			p.unsupported("go builtin")
		default:
			fv = t.get(fr, cc.Value).(*FuncVal)
		}
		args = t.evalArgs(fr, cc)
	}
	nt := p.newTask(fv, args...)
	nt.name = fv.Fn.String()
	p.spawned = append(p.spawned, fv)
}

// ---------------------------------------------------------------------------
// channels

func (t *Task) chanSend(ch *ChanObj, v Value, pos token.Pos) {
	if ch == nil {
		t.blockUntil(func() bool { return false }, "send on nil channel")
	}
	if ch.Closed {
		panic(&goPanic{val: IfaceVal{T: runtimeErrorT, V: Opaque{"send on closed channel"}}, site: t.p.W.E.Pos(pos), desc: "send on closed channel"})
	}
	// a waiting receiver takes the value directly
	for len(ch.recvq) > 0 {
		w := ch.recvq[0]
		ch.recvq = ch.recvq[1:]
		if w.done {
			continue
		}
		w.val, w.ok, w.done = v, true, true
		return
	}
	if len(ch.Buf) < ch.Cap {
		ch.Buf = append(ch.Buf, v)
		return
	}
	w := &chanWaiter{task: t, val: v}
	ch.sendq = append(ch.sendq, w)
	t.blockUntil(func() bool { return w.done || ch.Closed }, "chan send")
	if !w.done && ch.Closed {
		panic(&goPanic{val: IfaceVal{T: runtimeErrorT, V: Opaque{"send on closed channel"}}, site: t.p.W.E.Pos(pos), desc: "send on closed channel"})
	}
}

func (t *Task) chanTryRecv(ch *ChanObj) (Value, bool, bool) {
	if len(ch.Buf) > 0 {
		v := ch.Buf[0]
		ch.Buf = ch.Buf[1:]
		for len(ch.sendq) > 0 {
			w := ch.sendq[0]
			ch.sendq = ch.sendq[1:]
			if w.done {
				continue
			}
			ch.Buf = append(ch.Buf, w.val)
			w.done = true
			break
		}
		return v, true, true
	}
	for len(ch.sendq) > 0 {
		w := ch.sendq[0]
		ch.sendq = ch.sendq[1:]
		if w.done {
			continue
		}
		w.done = true
		return w.val, true, true
	}
	if ch.Closed {
		return t.p.zero(ch.ElemT), false, true
	}
	return nil, false, false
}

func (t *Task) chanRecv(ch *ChanObj, pos token.Pos) (Value, bool) {
	if ch == nil {
		t.blockUntil(func() bool { return false }, "receive on nil channel")
	}
	if v, ok, ready := t.chanTryRecv(ch); ready {
		return v, ok
	}
	w := &chanWaiter{task: t}
	ch.recvq = append(ch.recvq, w)
	t.blockUntil(func() bool { return w.done || ch.Closed }, "chan receive")
	if w.done {
		return w.val, w.ok
	}
	w.done = true // cancel
	return t.p.zero(ch.ElemT), false
}

func (t *Task) chanClose(ch *ChanObj, pos token.Pos) {
	if ch == nil {
		t.rtPanic(pos, "close of nil channel")
	}
	if ch.Closed {
		panic(&goPanic{val: IfaceVal{T: runtimeErrorT, V: Opaque{"close of closed channel"}}, site: t.p.W.E.Pos(pos), desc: "close of closed channel"})
	}
	ch.Closed = true
}

func chanRecvReady(ch *ChanObj) bool {
	if ch == nil {
		return false
	}
	if len(ch.Buf) > 0 || ch.Closed {
		return true
	}
	for _, w := range ch.sendq {
		if !w.done {
			return true
		}
	}
	return false
}

func chanSendReady(ch *ChanObj) bool {
	if ch == nil {
		return false
	}
	if ch.Closed || len(ch.Buf) < ch.Cap {
		return true
	}
	for _, w := range ch.recvq {
		if !w.done {
			return true
		}
	}
	return false
}

func (t *Task) selectStmt(fr *frame, x *ssa.Select) Value {
	p := t.p
	c := p.C
	type cs struct {
		ch   *ChanObj
		send Value
		dir  types.ChanDir
	}
	cases := make([]cs, len(x.States))
	for i, st := range x.States {
		cases[i].ch = t.get(fr, st.Chan).(*ChanObj)
		cases[i].dir = st.Dir
		if st.Dir == types.SendOnly {
			cases[i].send = t.get(fr, st.Send)
		}
	}
	readySet := func() []int {
		var r []int
		for i, k := range cases {
			if k.dir == types.SendOnly {
				if chanSendReady(k.ch) {
					r = append(r, i)
				}
			} else if chanRecvReady(k.ch) {
				r = append(r, i)
			}
		}
		return r
	}
	ready := readySet()
	if len(ready) == 0 && x.Blocking {
		t.blockUntil(func() bool { return len(readySet()) > 0 }, "select")
		ready = readySet()
	}
	idx := -1
	if len(ready) > 0 {
		idx = ready[0]
		if len(ready) > 1 {
			idx = ready[p.Choose(len(ready), "select")]
		}
	}
	res := Tuple{c.Const(64, uint64(int64(idx))), c.False}
	var recvVal Value
	if idx >= 0 {
		k := cases[idx]
		if k.dir == types.SendOnly {
			t.chanSend(k.ch, k.send, x.Pos())
		} else {
			v, ok, _ := t.chanTryRecv(k.ch)
			recvVal = v
			res[1] = c.Bool(ok)
		}
	}
	for i, st := range x.States {
		if st.Dir == types.RecvOnly {
			if i == idx {
				res = append(res, recvVal)
			} else {
				res = append(res, p.zero(st.Chan.Type().Underlying().(*types.Chan).Elem()))
			}
		}
	}
	return res
}

// ---------------------------------------------------------------------------
// virtual time

func (p *Path) addTimer(d *Term, fn *FuncVal, ch *ChanObj, period *Term, obj *Obj) *vTimer {
	p.ntimer++
	tm := &vTimer{id: p.ntimer, deadline: p.C.Add(p.now, d), fn: fn, ch: ch, period: period, active: true, obj: obj}
	p.timers = append(p.timers, tm)
	return tm
}

// fireNextTimer advances virtual time to the earliest pending deadline and fires it.
func (p *Path) fireNextTimer(from *Task) bool {
	best := p.earliestTimer()
	if best == nil {
		return false
	}
	if p.Branch(p.C.Slt(p.now, best.deadline)) {
		p.now = best.deadline
	}
	p.fire(best)
	return true
}

// earliestTimer picks the pending timer with the earliest deadline (ties:
// nondeterministic when the schedule is nondeterministic, else the oldest).
func (p *Path) earliestTimer() *vTimer {
	var act []*vTimer
	for _, tm := range p.timers {
		if tm.active {
			act = append(act, tm)
		}
	}
	p.timers = act
	if len(act) == 0 {
		return nil
	}
	best := act[0]
	for _, tm := range act[1:] {
		// strictly earlier wins; ties fork when not decidable syntactically
		lt := p.C.Slt(tm.deadline, best.deadline)
		if p.Branch(lt) {
			best = tm
		}
	}
	// equal deadlines: choose nondeterministically among the tied ones
	var tied []*vTimer
	for _, tm := range act {
		if tm == best {
			tied = append(tied, tm)
			continue
		}
		if p.Branch(p.C.Eq(tm.deadline, best.deadline)) {
			tied = append(tied, tm)
		}
	}
	if len(tied) > 1 && p.schedNondet {
		best = tied[p.Choose(len(tied), "timer-tie")]
	}
	return best
}

func (p *Path) fire(tm *vTimer) {
	tm.fired++
	if debugPreempt {
		n := "chan"
		if tm.fn != nil && tm.fn.Fn != nil {
			n = tm.fn.Fn.String()
		} else if tm.fn != nil {
			n = tm.fn.Tag
		}
		fmt.Printf("FIRE timer %d %s\n", tm.id, n)
	}
	if tm.period != nil {
		tm.deadline = p.C.Add(tm.deadline, tm.period)
	} else {
		tm.active = false
	}
	if tm.fn != nil {
		nt := p.newTask(tm.fn)
		nt.name = "timer:" + tm.fn.Tag
		if tm.fn.Fn != nil {
			nt.name = "timer:" + tm.fn.Fn.String()
		}
		p.timerTasks++
		return
	}
	if tm.ch != nil && len(tm.ch.Buf) < tm.ch.Cap {
		// deliver the current time (value is an opaque time.Time)
		tm.ch.Buf = append(tm.ch.Buf, p.timeValue())
	}
}

func (p *Path) pendingTimers() int {
	n := 0
	for _, tm := range p.timers {
		if tm.active {
			n++
		}
	}
	return n
}

// recordTaskPanic turns an unrecovered panic of a goroutine into a violation of
// the label the harness registered with vOnTaskPanic.
func (p *Path) recordTaskPanic(gp *goPanic, id int) {
	label := p.taskPanicLabel
	if pf := p.W.Opts.AssertPrefix; pf != "" && (len(label) < len(pf) || label[:len(pf)] != pf) {
		return
	}
	if p.covered == nil {
		p.covered = map[string]bool{}
	}
	p.covered[label] = true
	if p.W.Opts.Concrete != nil {
		p.violations = append(p.violations, Violation{Label: label})
		return
	}
	if p.pos < len(p.dec) {
		return
	}
	m := func() (m Model) {
		defer func() {
			if r := recover(); r != nil {
				m = nil
			}
		}()
		return p.getModel()
	}()
	if m == nil {
		return
	}
	tp := p.tapeFor(m, label)
	p.violations = append(p.violations, Violation{Label: label, Model: m, Tape: tp, Site: gp.site, Msg: gp.desc + fmt.Sprintf(" (goroutine %d)", id), CrashOK: true})
}
