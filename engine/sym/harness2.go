package sym

import (
	"os"

	"golang.org/x/tools/go/ssa"
)

func init() {
	// vOnTaskPanic(label): an unrecovered panic in any goroutine of the program
	// under test counts as a violation of the assertion `label`.
	harnessAPI2 = map[string]intrinsic{
		"vOnTaskPanic": func(t *Task, fn *ssa.Function, args []Value) Value {
			t.p.taskPanicLabel = t.p.constStr(args[0], "label")
			if t.p.covered == nil {
				t.p.covered = map[string]bool{}
			}
			if pf := t.p.W.Opts.AssertPrefix; pf == "" || (len(t.p.taskPanicLabel) >= len(pf) && t.p.taskPanicLabel[:len(pf)] == pf) {
				t.p.covered[t.p.taskPanicLabel] = true
			}
			return nil
		},
	}
}

var harnessAPI2 map[string]intrinsic

var debugPreempt = os.Getenv("VDEBUGPREEMPT") != ""
