// Package sym is gosym: a path-forking symbolic interpreter for Go SSA that
// discharges its branch-feasibility and assertion queries on an SMT solver.
package sym

import (
	"fmt"
	"math/bits"
	"strings"
)

type Op uint8

const (
	OpConst Op = iota
	OpVar
	OpNot // bool
	OpAnd
	OpOr
	OpEq // bv or bool args, bool result
	OpIte
	OpBvNot
	OpBvNeg
	OpAdd
	OpSub
	OpMul
	OpUDiv
	OpURem
	OpSDiv
	OpSRem
	OpBvAnd
	OpBvOr
	OpBvXor
	OpShl
	OpLShr
	OpAShr
	OpUlt
	OpUle
	OpSlt
	OpSle
	OpConcat
	OpExtract
	OpZext
	OpSext
)

var opSMT = map[Op]string{
	OpNot: "not", OpAnd: "and", OpOr: "or", OpEq: "=", OpIte: "ite",
	OpBvNot: "bvnot", OpBvNeg: "bvneg", OpAdd: "bvadd", OpSub: "bvsub", OpMul: "bvmul",
	OpUDiv: "bvudiv", OpURem: "bvurem", OpSDiv: "bvsdiv", OpSRem: "bvsrem",
	OpBvAnd: "bvand", OpBvOr: "bvor", OpBvXor: "bvxor", OpShl: "bvshl", OpLShr: "bvlshr", OpAShr: "bvashr",
	OpUlt: "bvult", OpUle: "bvule", OpSlt: "bvslt", OpSle: "bvsle", OpConcat: "concat",
}

// Term is a hash-consed node. W is the bit width (0 = Bool). Widths are <= 64.
type Term struct {
	Op   Op
	W    int
	A    [3]*Term
	N    int    // number of args
	Val  uint64 // const value; extract: hi<<8|lo ; zext/sext: unused
	Name string // var
	ID   int
	vars []*Term // cached variable set (lazily)
}

func (t *Term) IsConst() bool { return t.Op == OpConst }
func (t *Term) IsBool() bool  { return t.W == 0 }
func (t *Term) IsTrue() bool  { return t.Op == OpConst && t.W == 0 && t.Val == 1 }
func (t *Term) IsFalse() bool { return t.Op == OpConst && t.W == 0 && t.Val == 0 }

type termKey struct {
	op      Op
	w       int
	a, b, c int
	val     uint64
	name    string
}

// Ctx owns the term table. One per worker; not safe for concurrent use.
type Ctx struct {
	tab   map[termKey]*Term
	terms []*Term
	True  *Term
	False *Term
	nvars int
	Vars  map[string]*Term
}

func NewCtx() *Ctx {
	c := &Ctx{tab: map[termKey]*Term{}, Vars: map[string]*Term{}}
	c.False = c.mk(OpConst, 0, 0, "", nil, nil, nil)
	c.True = c.mk(OpConst, 0, 1, "", nil, nil, nil)
	return c
}

func id(t *Term) int {
	if t == nil {
		return -1
	}
	return t.ID
}

func (c *Ctx) mk(op Op, w int, val uint64, name string, a, b, d *Term) *Term {
	k := termKey{op, w, id(a), id(b), id(d), val, name}
	if t, ok := c.tab[k]; ok {
		return t
	}
	t := &Term{Op: op, W: w, Val: val, Name: name, ID: len(c.terms)}
	t.A = [3]*Term{a, b, d}
	switch {
	case d != nil:
		t.N = 3
	case b != nil:
		t.N = 2
	case a != nil:
		t.N = 1
	}
	c.tab[k] = t
	c.terms = append(c.terms, t)
	return t
}

func mask(w int) uint64 {
	if w >= 64 {
		return ^uint64(0)
	}
	return (uint64(1) << uint(w)) - 1
}

func signExt(v uint64, w int) int64 {
	if w >= 64 {
		return int64(v)
	}
	sh := uint(64 - w)
	return int64(v<<sh) >> sh
}

func (c *Ctx) Const(w int, v uint64) *Term {
	if w == 0 {
		if v != 0 {
			return c.True
		}
		return c.False
	}
	return c.mk(OpConst, w, v&mask(w), "", nil, nil, nil)
}

func (c *Ctx) Bool(b bool) *Term {
	if b {
		return c.True
	}
	return c.False
}

// Var returns the variable with the given name and width (interned by name).
func (c *Ctx) Var(name string, w int) *Term {
	if t, ok := c.Vars[name]; ok {
		if t.W != w {
			panic(fmt.Sprintf("variable %s redeclared with width %d (was %d)", name, w, t.W))
		}
		return t
	}
	t := c.mk(OpVar, w, 0, name, nil, nil, nil)
	c.Vars[name] = t
	return t
}

func (c *Ctx) Not(a *Term) *Term {
	if a.IsConst() {
		return c.Bool(a.Val == 0)
	}
	if a.Op == OpNot {
		return a.A[0]
	}
	return c.mk(OpNot, 0, 0, "", a, nil, nil)
}

func (c *Ctx) And(a, b *Term) *Term {
	if a.IsConst() {
		if a.Val == 0 {
			return c.False
		}
		return b
	}
	if b.IsConst() {
		if b.Val == 0 {
			return c.False
		}
		return a
	}
	if a == b {
		return a
	}
	if (a.Op == OpNot && a.A[0] == b) || (b.Op == OpNot && b.A[0] == a) {
		return c.False
	}
	if a.ID > b.ID {
		a, b = b, a
	}
	return c.mk(OpAnd, 0, 0, "", a, b, nil)
}

func (c *Ctx) Or(a, b *Term) *Term {
	if a.IsConst() {
		if a.Val == 1 {
			return c.True
		}
		return b
	}
	if b.IsConst() {
		if b.Val == 1 {
			return c.True
		}
		return a
	}
	if a == b {
		return a
	}
	if (a.Op == OpNot && a.A[0] == b) || (b.Op == OpNot && b.A[0] == a) {
		return c.True
	}
	if a.ID > b.ID {
		a, b = b, a
	}
	return c.mk(OpOr, 0, 0, "", a, b, nil)
}

func (c *Ctx) AndN(ts ...*Term) *Term {
	r := c.True
	for _, t := range ts {
		r = c.And(r, t)
	}
	return r
}

func (c *Ctx) OrN(ts ...*Term) *Term {
	r := c.False
	for _, t := range ts {
		r = c.Or(r, t)
	}
	return r
}

func (c *Ctx) Implies(a, b *Term) *Term { return c.Or(c.Not(a), b) }

func (c *Ctx) Eq(a, b *Term) *Term {
	if a.W != b.W {
		panic(fmt.Sprintf("Eq width mismatch %d vs %d: %s = %s", a.W, b.W, c.Show(a), c.Show(b)))
	}
	if a == b {
		return c.True
	}
	if a.IsConst() && b.IsConst() {
		return c.Bool(a.Val == b.Val)
	}
	if a.W == 0 {
		if a.IsConst() {
			a, b = b, a
		}
		if b.IsConst() {
			if b.Val == 1 {
				return a
			}
			return c.Not(a)
		}
	}
	if a.IsConst() {
		a, b = b, a
	}
	// (ite c k1 k2) == k  with all k constant
	if b.IsConst() && a.Op == OpIte && a.A[1].IsConst() && a.A[2].IsConst() {
		t1 := a.A[1].Val == b.Val
		t2 := a.A[2].Val == b.Val
		switch {
		case t1 && t2:
			return c.True
		case t1:
			return a.A[0]
		case t2:
			return c.Not(a.A[0])
		default:
			return c.False
		}
	}
	// zext(x) == k
	if b.IsConst() && a.Op == OpZext {
		x := a.A[0]
		if b.Val&^mask(x.W) != 0 {
			return c.False
		}
		return c.Eq(x, c.Const(x.W, b.Val))
	}
	// concat(h,l) == k
	if b.IsConst() && a.Op == OpConcat {
		h, l := a.A[0], a.A[1]
		return c.And(c.Eq(h, c.Const(h.W, b.Val>>uint(l.W))), c.Eq(l, c.Const(l.W, b.Val)))
	}
	if !b.IsConst() && a.ID > b.ID {
		a, b = b, a
	}
	return c.mk(OpEq, 0, 0, "", a, b, nil)
}

func (c *Ctx) Ne(a, b *Term) *Term { return c.Not(c.Eq(a, b)) }

func (c *Ctx) Ite(cond, a, b *Term) *Term {
	if a.W != b.W {
		panic("Ite width mismatch")
	}
	if cond.IsConst() {
		if cond.Val == 1 {
			return a
		}
		return b
	}
	if a == b {
		return a
	}
	if a.W == 0 {
		if a.IsConst() && b.IsConst() {
			if a.Val == 1 {
				return cond
			}
			return c.Not(cond)
		}
		if a.IsConst() {
			if a.Val == 1 {
				return c.Or(cond, b)
			}
			return c.And(c.Not(cond), b)
		}
		if b.IsConst() {
			if b.Val == 1 {
				return c.Or(c.Not(cond), a)
			}
			return c.And(cond, a)
		}
	}
	if cond.Op == OpNot {
		return c.Ite(cond.A[0], b, a)
	}
	return c.mk(OpIte, a.W, 0, "", cond, a, b)
}

func (c *Ctx) un(op Op, a *Term) *Term {
	if a.IsConst() {
		switch op {
		case OpBvNot:
			return c.Const(a.W, ^a.Val)
		case OpBvNeg:
			return c.Const(a.W, -a.Val)
		}
	}
	if a.Op == op {
		return a.A[0]
	}
	return c.mk(op, a.W, 0, "", a, nil, nil)
}

func (c *Ctx) BvNot(a *Term) *Term { return c.un(OpBvNot, a) }
func (c *Ctx) Neg(a *Term) *Term   { return c.un(OpBvNeg, a) }

func foldBin(op Op, w int, x, y uint64) (uint64, bool) {
	m := mask(w)
	switch op {
	case OpAdd:
		return (x + y) & m, true
	case OpSub:
		return (x - y) & m, true
	case OpMul:
		return (x * y) & m, true
	case OpUDiv:
		if y == 0 {
			return m, true
		}
		return x / y, true
	case OpURem:
		if y == 0 {
			return x, true
		}
		return x % y, true
	case OpSDiv:
		sx, sy := signExt(x, w), signExt(y, w)
		if sy == 0 {
			if sx < 0 {
				return 1, true
			}
			return m, true
		}
		if sy == -1 {
			return uint64(-sx) & m, true
		}
		return uint64(sx/sy) & m, true
	case OpSRem:
		sx, sy := signExt(x, w), signExt(y, w)
		if sy == 0 {
			return x, true
		}
		if sy == -1 {
			return 0, true
		}
		return uint64(sx%sy) & m, true
	case OpBvAnd:
		return x & y, true
	case OpBvOr:
		return x | y, true
	case OpBvXor:
		return x ^ y, true
	case OpShl:
		if y >= uint64(w) {
			return 0, true
		}
		return (x << y) & m, true
	case OpLShr:
		if y >= uint64(w) {
			return 0, true
		}
		return x >> y, true
	case OpAShr:
		sx := signExt(x, w)
		if y >= uint64(w) {
			y = uint64(w - 1)
		}
		return uint64(sx>>y) & m, true
	}
	return 0, false
}

func (c *Ctx) Bin(op Op, a, b *Term) *Term {
	if a.W != b.W {
		panic(fmt.Sprintf("Bin %v width mismatch %d vs %d", op, a.W, b.W))
	}
	w := a.W
	if a.IsConst() && b.IsConst() {
		if v, ok := foldBin(op, w, a.Val, b.Val); ok {
			return c.Const(w, v)
		}
	}
	commut := op == OpAdd || op == OpMul || op == OpBvAnd || op == OpBvOr || op == OpBvXor
	if commut && a.IsConst() {
		a, b = b, a
	}
	if b.IsConst() {
		switch op {
		case OpAdd, OpSub, OpBvOr, OpBvXor, OpShl, OpLShr, OpAShr:
			if b.Val == 0 {
				return a
			}
		case OpMul:
			if b.Val == 0 {
				return b
			}
			if b.Val == 1 {
				return a
			}
		case OpBvAnd:
			if b.Val == 0 {
				return b
			}
			if b.Val == mask(w) {
				return a
			}
		case OpUDiv, OpSDiv:
			if b.Val == 1 {
				return a
			}
		}
		// (x + k1) + k2
		if op == OpAdd && a.Op == OpAdd && a.A[1].IsConst() {
			return c.Bin(OpAdd, a.A[0], c.Const(w, a.A[1].Val+b.Val))
		}
		if op == OpSub {
			return c.Bin(OpAdd, a, c.Const(w, -b.Val))
		}
		// masks / shifts over zext, concat: keep simple cases
		if op == OpBvAnd && a.Op == OpZext && b.Val&mask(a.A[0].W) == mask(a.A[0].W) {
			return a
		}
		if op == OpLShr && a.Op == OpZext && b.Val >= uint64(a.A[0].W) {
			return c.Const(w, 0)
		}
		if op == OpBvAnd && a.Op == OpBvAnd && a.A[1].IsConst() {
			return c.Bin(OpBvAnd, a.A[0], c.Const(w, a.A[1].Val&b.Val))
		}
	}
	if a.IsConst() && a.Val == 0 {
		switch op {
		case OpShl, OpLShr, OpAShr, OpBvAnd, OpMul, OpUDiv, OpURem:
			return a
		}
	}
	if a == b {
		switch op {
		case OpSub, OpBvXor:
			return c.Const(w, 0)
		case OpBvAnd, OpBvOr:
			return a
		}
	}
	if commut && !b.IsConst() && a.ID > b.ID {
		a, b = b, a
	}
	return c.mk(op, w, 0, "", a, b, nil)
}

func (c *Ctx) Add(a, b *Term) *Term { return c.Bin(OpAdd, a, b) }
func (c *Ctx) Sub(a, b *Term) *Term { return c.Bin(OpSub, a, b) }

// umax returns an upper bound of the unsigned value of t (cheap, syntactic).
func umax(t *Term) uint64 {
	switch t.Op {
	case OpConst:
		return t.Val
	case OpZext:
		return umax(t.A[0])
	case OpIte:
		a, b := umax(t.A[1]), umax(t.A[2])
		if a > b {
			return a
		}
		return b
	case OpBvAnd:
		a, b := umax(t.A[0]), umax(t.A[1])
		if a < b {
			return a
		}
		return b
	case OpLShr:
		if t.A[1].IsConst() && t.A[1].Val < 64 {
			return umax(t.A[0]) >> t.A[1].Val
		}
	case OpConcat:
		if t.A[0].IsConst() {
			return t.A[0].Val<<uint(t.A[1].W) | umax(t.A[1])
		}
	}
	return mask(t.W)
}

func (c *Ctx) Cmp(op Op, a, b *Term) *Term {
	if a.W != b.W {
		panic(fmt.Sprintf("Cmp width mismatch %d vs %d", a.W, b.W))
	}
	w := a.W
	if a.IsConst() && b.IsConst() {
		switch op {
		case OpUlt:
			return c.Bool(a.Val < b.Val)
		case OpUle:
			return c.Bool(a.Val <= b.Val)
		case OpSlt:
			return c.Bool(signExt(a.Val, w) < signExt(b.Val, w))
		case OpSle:
			return c.Bool(signExt(a.Val, w) <= signExt(b.Val, w))
		}
	}
	if a == b {
		return c.Bool(op == OpUle || op == OpSle)
	}
	// cheap range reasoning
	switch op {
	case OpUlt:
		if b.IsConst() && b.Val == 0 {
			return c.False
		}
		if b.IsConst() && umax(a) < b.Val {
			return c.True
		}
		if a.IsConst() && a.Val >= umax(b) {
			return c.False
		}
	case OpUle:
		if a.IsConst() && a.Val == 0 {
			return c.True
		}
		if b.IsConst() && umax(a) <= b.Val {
			return c.True
		}
		if a.IsConst() && a.Val > umax(b) {
			return c.False
		}
	case OpSlt, OpSle:
		// both provably non-negative (top bit clear) -> unsigned compare
		half := uint64(1) << uint(w-1)
		if umax(a) < half && umax(b) < half {
			if op == OpSlt {
				return c.Cmp(OpUlt, a, b)
			}
			return c.Cmp(OpUle, a, b)
		}
	}
	// zext(x) cmp zext(y) of same inner width
	if a.Op == OpZext && b.Op == OpZext && a.A[0].W == b.A[0].W && (op == OpUlt || op == OpUle) {
		return c.Cmp(op, a.A[0], b.A[0])
	}
	if a.Op == OpZext && b.IsConst() && (op == OpUlt || op == OpUle) && b.Val <= mask(a.A[0].W) {
		return c.Cmp(op, a.A[0], c.Const(a.A[0].W, b.Val))
	}
	if b.Op == OpZext && a.IsConst() && (op == OpUlt || op == OpUle) && a.Val <= mask(b.A[0].W) {
		return c.Cmp(op, c.Const(b.A[0].W, a.Val), b.A[0])
	}
	return c.mk(op, 0, 0, "", a, b, nil)
}

func (c *Ctx) Ult(a, b *Term) *Term { return c.Cmp(OpUlt, a, b) }
func (c *Ctx) Ule(a, b *Term) *Term { return c.Cmp(OpUle, a, b) }
func (c *Ctx) Slt(a, b *Term) *Term { return c.Cmp(OpSlt, a, b) }
func (c *Ctx) Sle(a, b *Term) *Term { return c.Cmp(OpSle, a, b) }

func (c *Ctx) Concat(hi, lo *Term) *Term {
	w := hi.W + lo.W
	if w > 64 {
		panic("concat too wide")
	}
	if hi.IsConst() && lo.IsConst() {
		return c.Const(w, hi.Val<<uint(lo.W)|lo.Val)
	}
	if hi.IsConst() && hi.Val == 0 {
		return c.Zext(lo, w)
	}
	// concat(extract(x,h,m+1), extract(x,m,l)) = extract(x,h,l)
	if hi.Op == OpExtract && lo.Op == OpExtract && hi.A[0] == lo.A[0] {
		hh, hl := int(hi.Val>>8), int(hi.Val&0xff)
		lh, ll := int(lo.Val>>8), int(lo.Val&0xff)
		if hl == lh+1 {
			return c.Extract(hi.A[0], hh, ll)
		}
	}
	return c.mk(OpConcat, w, 0, "", hi, lo, nil)
}

func (c *Ctx) Extract(a *Term, hi, lo int) *Term {
	w := hi - lo + 1
	if lo == 0 && w == a.W {
		return a
	}
	if w <= 0 || hi >= a.W {
		panic(fmt.Sprintf("bad extract [%d:%d] of width %d", hi, lo, a.W))
	}
	switch a.Op {
	case OpConst:
		return c.Const(w, a.Val>>uint(lo))
	case OpConcat:
		l := a.A[1]
		if hi < l.W {
			return c.Extract(l, hi, lo)
		}
		if lo >= l.W {
			return c.Extract(a.A[0], hi-l.W, lo-l.W)
		}
		return c.Concat(c.Extract(a.A[0], hi-l.W, 0), c.Extract(l, l.W-1, lo))
	case OpZext:
		x := a.A[0]
		if hi < x.W {
			return c.Extract(x, hi, lo)
		}
		if lo >= x.W {
			return c.Const(w, 0)
		}
		return c.Zext(c.Extract(x, x.W-1, lo), w)
	case OpSext:
		x := a.A[0]
		if hi < x.W {
			return c.Extract(x, hi, lo)
		}
	case OpExtract:
		l0 := int(a.Val & 0xff)
		return c.Extract(a.A[0], hi+l0, lo+l0)
	case OpIte:
		if a.A[1].IsConst() && a.A[2].IsConst() {
			return c.Ite(a.A[0], c.Extract(a.A[1], hi, lo), c.Extract(a.A[2], hi, lo))
		}
	case OpBvAnd, OpBvOr, OpBvXor:
		return c.Bin(a.Op, c.Extract(a.A[0], hi, lo), c.Extract(a.A[1], hi, lo))
	case OpAdd, OpSub, OpMul:
		if lo == 0 {
			return c.Bin(a.Op, c.Extract(a.A[0], hi, 0), c.Extract(a.A[1], hi, 0))
		}
	case OpShl:
		// extract of (x << k) with constant k
		if a.A[1].IsConst() {
			k := int(a.A[1].Val)
			if lo >= k {
				return c.Extract(a.A[0], hi-k, lo-k)
			}
			if hi < k {
				return c.Const(w, 0)
			}
		}
	case OpLShr:
		if a.A[1].IsConst() {
			k := int(a.A[1].Val)
			if hi+k < a.W {
				return c.Extract(a.A[0], hi+k, lo+k)
			}
			if lo+k >= a.W {
				return c.Const(w, 0)
			}
		}
	}
	return c.mk(OpExtract, w, uint64(hi)<<8|uint64(lo), "", a, nil, nil)
}

func (c *Ctx) Zext(a *Term, w int) *Term {
	if w == a.W {
		return a
	}
	if w < a.W {
		return c.Extract(a, w-1, 0)
	}
	if a.IsConst() {
		return c.Const(w, a.Val)
	}
	if a.Op == OpZext {
		return c.Zext(a.A[0], w)
	}
	if a.Op == OpIte && a.A[1].IsConst() && a.A[2].IsConst() {
		return c.Ite(a.A[0], c.Zext(a.A[1], w), c.Zext(a.A[2], w))
	}
	return c.mk(OpZext, w, 0, "", a, nil, nil)
}

func (c *Ctx) Sext(a *Term, w int) *Term {
	if w == a.W {
		return a
	}
	if w < a.W {
		return c.Extract(a, w-1, 0)
	}
	if a.IsConst() {
		return c.Const(w, uint64(signExt(a.Val, a.W)))
	}
	if a.Op == OpZext { // zero-extended value is non-negative
		return c.Zext(a.A[0], w)
	}
	if a.Op == OpIte && a.A[1].IsConst() && a.A[2].IsConst() {
		return c.Ite(a.A[0], c.Sext(a.A[1], w), c.Sext(a.A[2], w))
	}
	return c.mk(OpSext, w, 0, "", a, nil, nil)
}

// ---------------------------------------------------------------------------
// evaluation under a model

type Model map[string]uint64

type evaluator struct {
	m    Model
	memo map[int]uint64
}

func (c *Ctx) Eval(t *Term, m Model) uint64 {
	e := &evaluator{m: m, memo: map[int]uint64{}}
	return e.eval(t)
}

func (c *Ctx) NewEvaluator(m Model) func(*Term) uint64 {
	e := &evaluator{m: m, memo: map[int]uint64{}}
	return e.eval
}

func (e *evaluator) eval(t *Term) uint64 {
	switch t.Op {
	case OpConst:
		return t.Val
	case OpVar:
		return e.m[t.Name] & maskB(t.W)
	}
	if v, ok := e.memo[t.ID]; ok {
		return v
	}
	var r uint64
	switch t.Op {
	case OpNot:
		r = 1 - e.eval(t.A[0])
	case OpAnd:
		r = e.eval(t.A[0]) & e.eval(t.A[1])
	case OpOr:
		r = e.eval(t.A[0]) | e.eval(t.A[1])
	case OpEq:
		if e.eval(t.A[0]) == e.eval(t.A[1]) {
			r = 1
		}
	case OpIte:
		if e.eval(t.A[0]) == 1 {
			r = e.eval(t.A[1])
		} else {
			r = e.eval(t.A[2])
		}
	case OpBvNot:
		r = ^e.eval(t.A[0]) & mask(t.W)
	case OpBvNeg:
		r = -e.eval(t.A[0]) & mask(t.W)
	case OpUlt, OpUle, OpSlt, OpSle:
		x, y := e.eval(t.A[0]), e.eval(t.A[1])
		w := t.A[0].W
		var b bool
		switch t.Op {
		case OpUlt:
			b = x < y
		case OpUle:
			b = x <= y
		case OpSlt:
			b = signExt(x, w) < signExt(y, w)
		case OpSle:
			b = signExt(x, w) <= signExt(y, w)
		}
		if b {
			r = 1
		}
	case OpConcat:
		r = e.eval(t.A[0])<<uint(t.A[1].W) | e.eval(t.A[1])
	case OpExtract:
		hi, lo := int(t.Val>>8), int(t.Val&0xff)
		r = (e.eval(t.A[0]) >> uint(lo)) & mask(hi-lo+1)
	case OpZext:
		r = e.eval(t.A[0])
	case OpSext:
		r = uint64(signExt(e.eval(t.A[0]), t.A[0].W)) & mask(t.W)
	default:
		v, ok := foldBin(t.Op, t.W, e.eval(t.A[0]), e.eval(t.A[1]))
		if !ok {
			panic("eval: unknown op")
		}
		r = v
	}
	e.memo[t.ID] = r
	return r
}

func maskB(w int) uint64 {
	if w == 0 {
		return 1
	}
	return mask(w)
}

// VarsOf returns the variables occurring in t.
func (c *Ctx) VarsOf(t *Term) []*Term {
	if t.vars != nil || t.Op == OpConst {
		return t.vars
	}
	if t.Op == OpVar {
		t.vars = []*Term{t}
		return t.vars
	}
	seen := map[int]bool{}
	var out []*Term
	for i := 0; i < t.N; i++ {
		for _, v := range c.VarsOf(t.A[i]) {
			if !seen[v.ID] {
				seen[v.ID] = true
				out = append(out, v)
			}
		}
	}
	if out == nil {
		out = []*Term{}
	}
	t.vars = out
	return out
}

// ---------------------------------------------------------------------------
// printing

func sortName(w int) string {
	if w == 0 {
		return "Bool"
	}
	return fmt.Sprintf("(_ BitVec %d)", w)
}

func constSMT(t *Term) string {
	if t.W == 0 {
		if t.Val == 1 {
			return "true"
		}
		return "false"
	}
	if t.W%4 == 0 {
		return fmt.Sprintf("#x%0*x", t.W/4, t.Val)
	}
	return fmt.Sprintf("#b%0*b", t.W, t.Val)
}

// VarSMT is the solver-side name of a variable: never a user-chosen string.
func VarSMT(t *Term) string { return fmt.Sprintf("v%d", t.ID) }

func refSMT(t *Term) string {
	switch t.Op {
	case OpConst:
		return constSMT(t)
	case OpVar:
		return VarSMT(t)
	}
	return fmt.Sprintf("g%d", t.ID)
}

// bodySMT prints the one-level definition of t in terms of refs of its args.
func bodySMT(t *Term) string {
	switch t.Op {
	case OpExtract:
		return fmt.Sprintf("((_ extract %d %d) %s)", t.Val>>8, t.Val&0xff, refSMT(t.A[0]))
	case OpZext:
		return fmt.Sprintf("((_ zero_extend %d) %s)", t.W-t.A[0].W, refSMT(t.A[0]))
	case OpSext:
		return fmt.Sprintf("((_ sign_extend %d) %s)", t.W-t.A[0].W, refSMT(t.A[0]))
	}
	var sb strings.Builder
	sb.WriteByte('(')
	sb.WriteString(opSMT[t.Op])
	for i := 0; i < t.N; i++ {
		sb.WriteByte(' ')
		sb.WriteString(refSMT(t.A[i]))
	}
	sb.WriteByte(')')
	return sb.String()
}

// Show renders a term for humans (bounded depth).
func (c *Ctx) Show(t *Term) string { return show(t, 6) }

func show(t *Term, d int) string {
	switch t.Op {
	case OpConst:
		if t.W == 0 {
			return constSMT(t)
		}
		return fmt.Sprintf("%d:%d", t.Val, t.W)
	case OpVar:
		return t.Name
	}
	if d == 0 {
		return fmt.Sprintf("g%d", t.ID)
	}
	var sb strings.Builder
	sb.WriteByte('(')
	switch t.Op {
	case OpExtract:
		fmt.Fprintf(&sb, "extract[%d:%d]", t.Val>>8, t.Val&0xff)
	case OpZext:
		fmt.Fprintf(&sb, "zext%d", t.W)
	case OpSext:
		fmt.Fprintf(&sb, "sext%d", t.W)
	default:
		sb.WriteString(opSMT[t.Op])
	}
	for i := 0; i < t.N; i++ {
		sb.WriteByte(' ')
		sb.WriteString(show(t.A[i], d-1))
	}
	sb.WriteByte(')')
	return sb.String()
}

var _ = bits.Len64
