package sym

import (
	"fmt"
	"go/types"
	"strings"

	"golang.org/x/tools/go/ssa"
)

type intrinsic func(t *Task, fn *ssa.Function, args []Value) Value

var intrinsics map[string]intrinsic
var intrinsicPrefixes []struct {
	prefix string
	h      intrinsic
}

func lookupIntrinsic(fn *ssa.Function) intrinsic {
	name := fn.String()
	if h, ok := intrinsics[name]; ok {
		return h
	}
	if h, ok := utf8Intrinsics[name]; ok {
		return h
	}
	if fn.Pkg == nil && fn.Origin() != nil {
		// instantiated generic: match on origin
		if h, ok := intrinsics[fn.Origin().String()]; ok {
			return h
		}
	}
	if len(name) > 0 && (name[0] == 'f' || name[0] == 'l' || name[0] == '(') {
		for _, ip := range intrinsicPrefixes {
			if strings.HasPrefix(name, ip.prefix) {
				return ip.h
			}
		}
	}
	// harness vocabulary: functions named v<Upper>... declared in an overlay harness file
	if n := fn.Name(); len(n) > 1 && n[0] == 'v' && n[1] >= 'A' && n[1] <= 'Z' && fn.Pkg != nil {
		if h, ok := harnessAPI[n]; ok {
			return h
		}
		if h, ok := harnessAPI2[n]; ok {
			return h
		}
	}
	return nil
}

// IntrinsicNames lists the modelled functions (for evidence files).
func IntrinsicNames() []string {
	var out []string
	for k := range intrinsics {
		out = append(out, k)
	}
	return out
}

func structObj(v Value) *Obj {
	pt := v.(Ptr)
	if pt.O == nil {
		return nil
	}
	so, _ := pt.O.Slots[pt.I].(*Obj)
	return so
}

func fieldIndex(t types.Type, name string) int {
	if pt, ok := t.Underlying().(*types.Pointer); ok {
		t = pt.Elem()
	}
	st := t.Underlying().(*types.Struct)
	for i := 0; i < st.NumFields(); i++ {
		if st.Field(i).Name() == name {
			return i
		}
	}
	panic("no field " + name + " in " + t.String())
}

func (p *Path) sideOf(v Value) sideKey {
	pt := v.(Ptr)
	return sideKey{pt.O, pt.I}
}

type mutexState struct {
	owner   *Task
	readers int
	locked  bool
}

func (p *Path) mutex(v Value) *mutexState {
	k := p.sideOf(v)
	if m, ok := p.side[k]; ok {
		return m.(*mutexState)
	}
	m := &mutexState{}
	p.side[k] = m
	return m
}

func (t *Task) nilRecv(v Value, what string) {
	if pt, ok := v.(Ptr); ok && pt.O == nil {
		panic(&goPanic{val: IfaceVal{T: runtimeErrorT, V: Opaque{"nil pointer dereference"}}, site: what, desc: "nil pointer dereference (" + what + ")"})
	}
}

func (p *Path) timeValue() Value {
	// time.Time{wall: 0, ext: virtual ns, loc: nil}
	return &StructVal{F: []Value{p.C.Const(64, 0), p.now, Ptr{}}}
}

func timeNs(v Value) *Term { return v.(*StructVal).F[1].(*Term) }

func (p *Path) opaqueString(tag string) StrVal { return p.mkString("<" + tag + ">") }

func (t *Task) newError(msg string) Value {
	p := t.p
	fn := p.W.E.Func("errors", "New")
	if fn == nil {
		p.unsupported("errors.New not found")
	}
	return t.call(fn, []Value{p.mkString(msg)}, nil)
}

func init() {
	intrinsics = map[string]intrinsic{}
	reg := func(h intrinsic, names ...string) {
		for _, n := range names {
			intrinsics[n] = h
		}
	}
	regPrefix := func(h intrinsic, prefixes ...string) {
		for _, pf := range prefixes {
			intrinsicPrefixes = append(intrinsicPrefixes, struct {
				prefix string
				h      intrinsic
			}{pf, h})
		}
	}

	// ---- internal/bytealg ------------------------------------------------
	indexByte := func(t *Task, fn *ssa.Function, args []Value) Value {
		p := t.p
		c := p.C
		var arr *Obj
		var off int
		var ln *Term
		switch s := args[0].(type) {
		case SliceVal:
			arr, off, ln = s.Arr, s.Off, s.Len
		case StrVal:
			arr, off, ln = s.Arr, s.Off, s.Len
		}
		ch := args[1].(*Term)
		n := p.ConcInt(ln, "length in IndexByte")
		res := c.Const(64, ^uint64(0))
		for i := n - 1; i >= 0; i-- {
			res = c.Ite(c.Eq(arr.Slots[off+i].(*Term), ch), c.Const(64, uint64(i)), res)
		}
		return res
	}
	reg(indexByte, "internal/bytealg.IndexByte", "internal/bytealg.IndexByteString")
	count := func(t *Task, fn *ssa.Function, args []Value) Value {
		p := t.p
		c := p.C
		var arr *Obj
		var off int
		var ln *Term
		switch s := args[0].(type) {
		case SliceVal:
			arr, off, ln = s.Arr, s.Off, s.Len
		case StrVal:
			arr, off, ln = s.Arr, s.Off, s.Len
		}
		ch := args[1].(*Term)
		n := p.ConcInt(ln, "length in Count")
		// the sum is built in the narrowest width that holds n (cheap to bit-blast)
		w := 8
		for (1<<uint(w))-1 < n {
			w += 8
		}
		res := c.Const(w, 0)
		for i := 0; i < n; i++ {
			res = c.Add(res, c.Ite(c.Eq(arr.Slots[off+i].(*Term), ch), c.Const(w, 1), c.Const(w, 0)))
		}
		return c.Zext(res, 64)
	}
	reg(count, "internal/bytealg.Count", "internal/bytealg.CountString")
	reg(func(t *Task, fn *ssa.Function, args []Value) Value {
		a, b := args[0].(SliceVal), args[1].(SliceVal)
		return t.strEq(StrVal{a.Arr, a.Off, a.Len}, StrVal{b.Arr, b.Off, b.Len})
	}, "internal/bytealg.Equal", "bytes.Equal")
	reg(func(t *Task, fn *ssa.Function, args []Value) Value {
		p := t.p
		n := p.ConcInt(args[0].(*Term), "MakeNoZero length")
		arr := p.newArray(types.Typ[types.Uint8], n)
		ln := p.C.Const(64, uint64(n))
		return SliceVal{Arr: arr, Len: ln, Cap: ln}
	}, "internal/bytealg.MakeNoZero")
	reg(func(t *Task, fn *ssa.Function, args []Value) Value { return args[0] },
		"internal/stringslite.Clone", "strings.Clone", "bytes.Clone")
	// strings.IndexAny / IndexRune with a constant ASCII character set: byte-level
	// matching is exact (no byte of a multi-byte UTF-8 sequence is ASCII), so the
	// result is a term over the subject's bytes instead of a rune-by-rune fork.
	// Other argument shapes fall through to the real code.
	indexAny := func(t *Task, fn *ssa.Function, args []Value) Value {
		p := t.p
		c := p.C
		var arr *Obj
		var off int
		var ln *Term
		switch s := args[0].(type) {
		case SliceVal:
			arr, off, ln = s.Arr, s.Off, s.Len
		case StrVal:
			arr, off, ln = s.Arr, s.Off, s.Len
		}
		var chars string
		ok := false
		switch x := args[1].(type) {
		case StrVal:
			chars, ok = p.concreteString(x)
		case *Term:
			if x.IsConst() && x.Val < 0x80 {
				chars, ok = string(rune(x.Val)), true
			}
		}
		if ok {
			for i := 0; i < len(chars); i++ {
				if chars[i] >= 0x80 {
					ok = false
				}
			}
		}
		if !ok {
			return t.callBody(fn, args, nil)
		}
		n := p.ConcInt(ln, "length in IndexAny")
		res := c.Const(64, ^uint64(0))
		for i := n - 1; i >= 0; i-- {
			b := arr.Slots[off+i].(*Term)
			m := c.False
			for j := 0; j < len(chars); j++ {
				m = c.Or(m, c.Eq(b, c.Const(8, uint64(chars[j]))))
			}
			res = c.Ite(m, c.Const(64, uint64(i)), res)
		}
		return res
	}
	reg(indexAny, "strings.IndexAny", "strings.IndexRune", "bytes.IndexAny", "bytes.IndexRune")

	// ---- strings.Builder ---------------------------------------------------
	builderBuf := func(t *Task, recv Value) (*Obj, int) {
		so := structObj(recv)
		if so == nil {
			t.nilRecv(recv, "strings.Builder")
		}
		return so, 1 // fields: addr *Builder, buf []byte
	}
	reg(func(t *Task, fn *ssa.Function, args []Value) Value {
		so, i := builderBuf(t, args[0])
		so.Slots[i] = t.builtinAppend(so.Slots[i].(SliceVal), args[1], nil)
		switch s := args[1].(type) {
		case StrVal:
			return Tuple{s.Len, IfaceVal{}}
		case SliceVal:
			return Tuple{s.Len, IfaceVal{}}
		}
		return nil
	}, "(*strings.Builder).WriteString", "(*strings.Builder).Write")
	reg(func(t *Task, fn *ssa.Function, args []Value) Value {
		p := t.p
		so, i := builderBuf(t, args[0])
		one := p.newObj(KArray, 1)
		one.Slots[0] = args[1]
		k1 := p.C.Const(64, 1)
		so.Slots[i] = t.builtinAppend(so.Slots[i].(SliceVal), SliceVal{Arr: one, Len: k1, Cap: k1}, nil)
		return IfaceVal{}
	}, "(*strings.Builder).WriteByte")
	reg(func(t *Task, fn *ssa.Function, args []Value) Value {
		p := t.p
		so, i := builderBuf(t, args[0])
		s := so.Slots[i].(SliceVal)
		if s.Arr == nil {
			return StrVal{Len: p.C.Const(64, 0)}
		}
		return StrVal{Arr: p.viewCopy(s.Arr, s.Off, s.Len), Len: s.Len}
	}, "(*strings.Builder).String")
	reg(func(t *Task, fn *ssa.Function, args []Value) Value { return nil }, "(*strings.Builder).Grow", "(*strings.Builder).copyCheck")
	reg(func(t *Task, fn *ssa.Function, args []Value) Value {
		so, i := builderBuf(t, args[0])
		return so.Slots[i].(SliceVal).Len
	}, "(*strings.Builder).Len")
	reg(func(t *Task, fn *ssa.Function, args []Value) Value {
		so, i := builderBuf(t, args[0])
		so.Slots[i] = t.p.zero(types.NewSlice(types.Typ[types.Uint8]))
		return nil
	}, "(*strings.Builder).Reset")

	// ---- fmt / log: formatting is not executed -----------------------------
	reg(func(t *Task, fn *ssa.Function, args []Value) Value {
		return t.p.opaqueString(fn.String() + "@" + t.callerPos())
	}, "fmt.Sprintf", "fmt.Sprint", "fmt.Sprintln")
	reg(func(t *Task, fn *ssa.Function, args []Value) Value {
		return t.newError("<fmt.Errorf@" + t.callerPos() + ">")
	}, "fmt.Errorf")
	regPrefix(func(t *Task, fn *ssa.Function, args []Value) Value {
		res := fn.Signature.Results()
		switch res.Len() {
		case 0:
			return nil
		case 2: // (n int, err error)
			return Tuple{t.p.C.Const(64, 0), IfaceVal{}}
		}
		return t.zeroResults(fn)
	}, "fmt.Print", "fmt.Fprint", "log.", "(*log.Logger).")

	// ---- errors ------------------------------------------------------------
	reg(func(t *Task, fn *ssa.Function, args []Value) Value {
		p := t.p
		err, target := args[0].(IfaceVal), args[1].(IfaceVal)
		for depth := 0; depth < 8; depth++ {
			if err.T == nil {
				return p.C.Bool(target.T == nil)
			}
			eq := t.valEq(err, target, nil)
			if p.Branch(eq) {
				return p.C.True
			}
			if err.T == opaqueErrT || err.T == runtimeErrorT {
				return p.C.False
			}
			un := p.W.E.Prog.LookupMethod(err.T, nil, "Unwrap")
			if un == nil || un.Signature.Results().Len() != 1 {
				return p.C.False
			}
			r := t.call(un, []Value{err.V}, nil)
			ne, ok := r.(IfaceVal)
			if !ok {
				return p.C.False
			}
			err = ne
		}
		return p.C.False
	}, "errors.Is")

	// ---- sync ----------------------------------------------------------------
	reg(func(t *Task, fn *ssa.Function, args []Value) Value {
		t.nilRecv(args[0], fn.String())
		t.preSync(args[0])
		m := t.p.mutex(args[0])
		if m.locked && m.owner == t {
			t.p.fail("blocked", "self-deadlock: %s on a mutex already held by the same goroutine at %s", fn.String(), t.callerPos())
		}
		t.blockUntil(func() bool { return !m.locked && m.readers == 0 }, "mutex")
		m.locked, m.owner = true, t
		t.heldLocks++
		return nil
	}, "(*sync.Mutex).Lock", "(*sync.RWMutex).Lock")
	reg(func(t *Task, fn *ssa.Function, args []Value) Value {
		t.nilRecv(args[0], fn.String())
		t.preSync(args[0])
		m := t.p.mutex(args[0])
		if !m.locked {
			panic(&goPanic{val: IfaceVal{T: runtimeErrorT, V: Opaque{"unlock of unlocked mutex"}}, site: t.callerPos(), desc: "sync: unlock of unlocked mutex"})
		}
		m.locked, m.owner = false, nil
		t.heldLocks--
		return nil
	}, "(*sync.Mutex).Unlock", "(*sync.RWMutex).Unlock")
	reg(func(t *Task, fn *ssa.Function, args []Value) Value {
		t.nilRecv(args[0], fn.String())
		t.preSync(args[0])
		m := t.p.mutex(args[0])
		if m.locked {
			return t.p.C.False
		}
		m.locked, m.owner = true, t
		t.heldLocks++
		return t.p.C.True
	}, "(*sync.Mutex).TryLock")
	reg(func(t *Task, fn *ssa.Function, args []Value) Value {
		t.nilRecv(args[0], fn.String())
		t.preSync(args[0])
		m := t.p.mutex(args[0])
		t.blockUntil(func() bool { return !m.locked }, "rwmutex read")
		m.readers++
		t.heldLocks++
		return nil
	}, "(*sync.RWMutex).RLock")
	reg(func(t *Task, fn *ssa.Function, args []Value) Value {
		t.nilRecv(args[0], fn.String())
		t.preSync(args[0])
		m := t.p.mutex(args[0])
		if m.readers <= 0 {
			panic(&goPanic{val: IfaceVal{T: runtimeErrorT, V: Opaque{"RUnlock of unlocked RWMutex"}}, site: t.callerPos(), desc: "sync: RUnlock of unlocked RWMutex"})
		}
		m.readers--
		t.heldLocks--
		return nil
	}, "(*sync.RWMutex).RUnlock")

	type onceState struct{ done bool }
	reg(func(t *Task, fn *ssa.Function, args []Value) Value {
		p := t.p
		k := p.sideOf(args[0])
		st, _ := p.side[k].(*onceState)
		if st == nil {
			st = &onceState{}
			p.side[k] = st
		}
		if !st.done {
			st.done = true
			fv := args[1].(*FuncVal)
			t.callFuncVal(fv, nil)
		}
		return nil
	}, "(*sync.Once).Do")

	type wgState struct{ n int }
	wg := func(p *Path, v Value) *wgState {
		k := p.sideOf(v)
		st, _ := p.side[k].(*wgState)
		if st == nil {
			st = &wgState{}
			p.side[k] = st
		}
		return st
	}
	reg(func(t *Task, fn *ssa.Function, args []Value) Value {
		st := wg(t.p, args[0])
		st.n += t.p.ConcInt(args[1].(*Term), "WaitGroup delta")
		if st.n < 0 {
			panic(&goPanic{val: IfaceVal{T: runtimeErrorT, V: Opaque{"negative WaitGroup counter"}}, site: t.callerPos(), desc: "sync: negative WaitGroup counter"})
		}
		return nil
	}, "(*sync.WaitGroup).Add")
	reg(func(t *Task, fn *ssa.Function, args []Value) Value {
		st := wg(t.p, args[0])
		st.n--
		if st.n < 0 {
			panic(&goPanic{val: IfaceVal{T: runtimeErrorT, V: Opaque{"negative WaitGroup counter"}}, site: t.callerPos(), desc: "sync: negative WaitGroup counter"})
		}
		return nil
	}, "(*sync.WaitGroup).Done")
	reg(func(t *Task, fn *ssa.Function, args []Value) Value {
		st := wg(t.p, args[0])
		t.blockUntil(func() bool { return st.n == 0 }, "WaitGroup.Wait")
		return nil
	}, "(*sync.WaitGroup).Wait")

	// sync.Map as an association list
	smap := func(p *Path, v Value) *MapObj {
		k := p.sideOf(v)
		m, _ := p.side[k].(*MapObj)
		if m == nil {
			p.nobj++
			m = &MapObj{ID: p.nobj}
			p.side[k] = m
		}
		return m
	}
	reg(func(t *Task, fn *ssa.Function, args []Value) Value {
		t.preAccessKey(t.p.sideOf(args[0]), false)
		m := smap(t.p, args[0])
		i := t.mapFind(m, args[1])
		if i < 0 {
			return Tuple{IfaceVal{}, t.p.C.False}
		}
		return Tuple{m.Entries[i].V, t.p.C.True}
	}, "(*sync.Map).Load")
	reg(func(t *Task, fn *ssa.Function, args []Value) Value {
		t.preAccessKey(t.p.sideOf(args[0]), true)
		t.mapStore(smap(t.p, args[0]), args[1], args[2])
		return nil
	}, "(*sync.Map).Store")
	reg(func(t *Task, fn *ssa.Function, args []Value) Value {
		t.preAccessKey(t.p.sideOf(args[0]), true)
		t.mapDelete(smap(t.p, args[0]), args[1])
		return nil
	}, "(*sync.Map).Delete")
	reg(func(t *Task, fn *ssa.Function, args []Value) Value {
		t.preAccessKey(t.p.sideOf(args[0]), true)
		m := smap(t.p, args[0])
		i := t.mapFind(m, args[1])
		if i >= 0 {
			return Tuple{m.Entries[i].V, t.p.C.True}
		}
		m.Entries = append(m.Entries, mapEntry{args[1], args[2]})
		return Tuple{args[2], t.p.C.False}
	}, "(*sync.Map).LoadOrStore")
	reg(func(t *Task, fn *ssa.Function, args []Value) Value {
		t.preAccessKey(t.p.sideOf(args[0]), true)
		m := smap(t.p, args[0])
		i := t.mapFind(m, args[1])
		if i < 0 {
			return Tuple{IfaceVal{}, t.p.C.False}
		}
		v := m.Entries[i].V
		t.mapDelete(m, args[1])
		return Tuple{v, t.p.C.True}
	}, "(*sync.Map).LoadAndDelete")
	reg(func(t *Task, fn *ssa.Function, args []Value) Value {
		p := t.p
		t.preAccessKey(p.sideOf(args[0]), false)
		m := smap(p, args[0])
		remain := append([]mapEntry(nil), m.Entries...)
		fv := args[1].(*FuncVal)
		for len(remain) > 0 {
			i := 0
			if !p.W.Opts.MapOrderFixed && !p.mapOrderFixed && len(remain) > 1 {
				i = p.Choose(len(remain), "maporder")
			}
			e := remain[i]
			remain = append(remain[:i:i], remain[i+1:]...)
			r := t.callFuncVal(fv, []Value{e.K, e.V}).(*Term)
			if !p.Branch(r) {
				break
			}
		}
		return nil
	}, "(*sync.Map).Range")

	// ---- sync/atomic -----------------------------------------------------------
	reg(func(t *Task, fn *ssa.Function, args []Value) Value {
		pt := args[0].(Ptr)
		t.nilRecv(pt, fn.String())
		t.preSync(pt)
		return t.p.load(pt)
	}, "sync/atomic.LoadUint32", "sync/atomic.LoadInt32", "sync/atomic.LoadUint64", "sync/atomic.LoadInt64", "sync/atomic.LoadPointer", "sync/atomic.LoadUintptr")
	reg(func(t *Task, fn *ssa.Function, args []Value) Value {
		pt := args[0].(Ptr)
		t.nilRecv(pt, fn.String())
		t.preSync(pt)
		t.p.store(pt, args[1])
		return nil
	}, "sync/atomic.StoreUint32", "sync/atomic.StoreInt32", "sync/atomic.StoreUint64", "sync/atomic.StoreInt64", "sync/atomic.StorePointer", "sync/atomic.StoreUintptr")
	reg(func(t *Task, fn *ssa.Function, args []Value) Value {
		pt := args[0].(Ptr)
		t.nilRecv(pt, fn.String())
		t.preSync(pt)
		old := t.p.load(pt)
		t.p.store(pt, args[1])
		return old
	}, "sync/atomic.SwapUint32", "sync/atomic.SwapInt32", "sync/atomic.SwapUint64", "sync/atomic.SwapInt64", "sync/atomic.SwapPointer")
	reg(func(t *Task, fn *ssa.Function, args []Value) Value {
		pt := args[0].(Ptr)
		t.nilRecv(pt, fn.String())
		t.preSync(pt)
		nv := t.p.C.Add(t.p.load(pt).(*Term), args[1].(*Term))
		t.p.store(pt, nv)
		return nv
	}, "sync/atomic.AddUint32", "sync/atomic.AddInt32", "sync/atomic.AddUint64", "sync/atomic.AddInt64")
	reg(func(t *Task, fn *ssa.Function, args []Value) Value {
		pt := args[0].(Ptr)
		t.nilRecv(pt, fn.String())
		t.preSync(pt)
		cur := t.p.load(pt)
		if t.p.Branch(t.valEq(cur, args[1], nil)) {
			t.p.store(pt, args[2])
			return t.p.C.True
		}
		return t.p.C.False
	}, "sync/atomic.CompareAndSwapUint32", "sync/atomic.CompareAndSwapInt32", "sync/atomic.CompareAndSwapUint64", "sync/atomic.CompareAndSwapInt64", "sync/atomic.CompareAndSwapPointer")
	// atomic.Value: payload kept in a side table
	reg(func(t *Task, fn *ssa.Function, args []Value) Value {
		t.preSync(args[0])
		if v, ok := t.p.side[t.p.sideOf(args[0])]; ok {
			return v.(IfaceVal)
		}
		return IfaceVal{}
	}, "(*sync/atomic.Value).Load")
	reg(func(t *Task, fn *ssa.Function, args []Value) Value {
		t.preSync(args[0])
		t.p.side[t.p.sideOf(args[0])] = args[1].(IfaceVal)
		return nil
	}, "(*sync/atomic.Value).Store")
	// atomic.Pointer[T] (generic): payload in side table
	reg(func(t *Task, fn *ssa.Function, args []Value) Value {
		t.preSync(args[0])
		if v, ok := t.p.side[t.p.sideOf(args[0])]; ok {
			return v.(Ptr)
		}
		return Ptr{}
	}, "(*sync/atomic.Pointer[T]).Load")
	reg(func(t *Task, fn *ssa.Function, args []Value) Value {
		t.preSync(args[0])
		t.p.side[t.p.sideOf(args[0])] = args[1].(Ptr)
		return nil
	}, "(*sync/atomic.Pointer[T]).Store")

	// ---- time ------------------------------------------------------------------
	reg(func(t *Task, fn *ssa.Function, args []Value) Value { return t.p.timeValue() }, "time.Now")
	reg(func(t *Task, fn *ssa.Function, args []Value) Value {
		tv := args[0].(*StructVal)
		return &StructVal{F: []Value{tv.F[0], t.p.C.Add(timeNs(tv), args[1].(*Term)), tv.F[2]}}
	}, "(time.Time).Add")
	reg(func(t *Task, fn *ssa.Function, args []Value) Value {
		return t.p.C.Sub(timeNs(args[0]), timeNs(args[1]))
	}, "(time.Time).Sub")
	reg(func(t *Task, fn *ssa.Function, args []Value) Value {
		return t.p.C.Sub(t.p.now, timeNs(args[0]))
	}, "time.Since")
	reg(func(t *Task, fn *ssa.Function, args []Value) Value {
		return t.p.C.Sub(timeNs(args[0]), t.p.now)
	}, "time.Until")
	reg(func(t *Task, fn *ssa.Function, args []Value) Value {
		return t.p.C.Slt(timeNs(args[0]), timeNs(args[1]))
	}, "(time.Time).Before")
	reg(func(t *Task, fn *ssa.Function, args []Value) Value {
		return t.p.C.Slt(timeNs(args[1]), timeNs(args[0]))
	}, "(time.Time).After")
	reg(func(t *Task, fn *ssa.Function, args []Value) Value {
		return t.p.C.Eq(timeNs(args[0]), timeNs(args[1]))
	}, "(time.Time).Equal")
	reg(func(t *Task, fn *ssa.Function, args []Value) Value {
		return t.p.C.Eq(timeNs(args[0]), t.p.C.Const(64, 0))
	}, "(time.Time).IsZero")
	reg(func(t *Task, fn *ssa.Function, args []Value) Value { return timeNs(args[0]) }, "(time.Time).UnixNano")
	reg(func(t *Task, fn *ssa.Function, args []Value) Value { return t.p.opaqueString("time") },
		"(time.Time).String", "(time.Duration).String", "(time.Time).Format")
	reg(func(t *Task, fn *ssa.Function, args []Value) Value {
		d := args[0].(*Term)
		cv := t.p.Concretize(d, "Duration.Seconds")
		return FloatVal(float64(int64(cv)) / 1e9)
	}, "(time.Duration).Seconds")

	newTimerObj := func(t *Task, fn *ssa.Function, withChan bool, capN int) (*Obj, Ptr, *ChanObj) {
		p := t.p
		rt := fn.Signature.Results().At(0).Type() // *time.Timer / *time.Ticker
		st := rt.Underlying().(*types.Pointer).Elem()
		box := p.newObj(KBox, 1)
		box.Slots[0] = p.zeroSlot(st)
		so := box.Slots[0].(*Obj)
		var ch *ChanObj
		if withChan {
			p.nobj++
			ch = &ChanObj{Cap: capN, ID: p.nobj, ElemT: p.W.E.SSAPkgs["time"].Type("Time").Type()}
			so.Slots[0] = ch // field C
		}
		return so, Ptr{box, 0}, ch
	}
	reg(func(t *Task, fn *ssa.Function, args []Value) Value {
		p := t.p
		_, ptr, _ := newTimerObj(t, fn, false, 0)
		tm := p.addTimer(args[0].(*Term), args[1].(*FuncVal), nil, nil, ptr.O)
		p.side[sideKey{ptr.O, 0}] = tm
		// with pre-emption enabled a timer that is already due fires at once: its
		// goroutine is runnable before AfterFunc's caller has stored the result
		if d := args[0].(*Term); p.preemptBound > 0 && d.IsConst() && int64(d.Val) <= 0 {
			p.fire(tm)
		}
		return ptr
	}, "time.AfterFunc")
	reg(func(t *Task, fn *ssa.Function, args []Value) Value {
		p := t.p
		_, ptr, ch := newTimerObj(t, fn, true, 1)
		tm := p.addTimer(args[0].(*Term), nil, ch, nil, ptr.O)
		p.side[sideKey{ptr.O, 0}] = tm
		return ptr
	}, "time.NewTimer")
	reg(func(t *Task, fn *ssa.Function, args []Value) Value {
		p := t.p
		p.nobj++
		ch := &ChanObj{Cap: 1, ID: p.nobj, ElemT: p.W.E.SSAPkgs["time"].Type("Time").Type()}
		p.addTimer(args[0].(*Term), nil, ch, nil, nil)
		return ch
	}, "time.After")
	reg(func(t *Task, fn *ssa.Function, args []Value) Value {
		p := t.p
		d := args[0].(*Term)
		if !p.Branch(p.C.Slt(p.C.Const(64, 0), d)) {
			panic(&goPanic{val: IfaceVal{T: runtimeErrorT, V: Opaque{"non-positive interval for NewTicker"}}, site: t.callerPos(), desc: "non-positive interval for NewTicker"})
		}
		_, ptr, ch := newTimerObj(t, fn, true, 1)
		tm := p.addTimer(d, nil, ch, d, ptr.O)
		p.side[sideKey{ptr.O, 0}] = tm
		return ptr
	}, "time.NewTicker")
	timerOf := func(t *Task, v Value) *vTimer {
		pt := v.(Ptr)
		if pt.O == nil {
			panic(&goPanic{val: IfaceVal{T: runtimeErrorT, V: Opaque{"nil pointer dereference"}}, site: t.callerPos(), desc: "nil pointer dereference (method on nil *time.Timer)"})
		}
		tm, _ := t.p.side[sideKey{pt.O, pt.I}].(*vTimer)
		if tm == nil {
			t.p.unsupported("time.Timer not created by the timer model")
		}
		return tm
	}
	reg(func(t *Task, fn *ssa.Function, args []Value) Value {
		tm := timerOf(t, args[0])
		t.preSync(args[0])
		was := tm.active
		tm.active = false
		return t.p.C.Bool(was)
	}, "(*time.Timer).Stop")
	reg(func(t *Task, fn *ssa.Function, args []Value) Value {
		tm := timerOf(t, args[0])
		t.preSync(args[0])
		tm.active = false
		return nil
	}, "(*time.Ticker).Stop")
	reg(func(t *Task, fn *ssa.Function, args []Value) Value {
		p := t.p
		tm := timerOf(t, args[0])
		t.preSync(args[0])
		was := tm.active
		tm.active = false
		nt := p.addTimer(args[1].(*Term), tm.fn, tm.ch, nil, tm.obj)
		pt := args[0].(Ptr)
		p.side[sideKey{pt.O, pt.I}] = nt
		return p.C.Bool(was)
	}, "(*time.Timer).Reset")
	reg(func(t *Task, fn *ssa.Function, args []Value) Value {
		p := t.p
		tm := timerOf(t, args[0])
		t.preSync(args[0])
		d := args[1].(*Term)
		if !p.Branch(p.C.Slt(p.C.Const(64, 0), d)) {
			panic(&goPanic{val: IfaceVal{T: runtimeErrorT, V: Opaque{"non-positive interval for Ticker.Reset"}}, site: t.callerPos(), desc: "non-positive interval for Ticker.Reset"})
		}
		tm.active = false
		nt := p.addTimer(d, nil, tm.ch, d, tm.obj)
		pt := args[0].(Ptr)
		p.side[sideKey{pt.O, pt.I}] = nt
		return nil
	}, "(*time.Ticker).Reset")
	reg(func(t *Task, fn *ssa.Function, args []Value) Value {
		p := t.p
		tm := p.addTimer(args[0].(*Term), nil, nil, nil, nil)
		t.blockUntil(func() bool { return !tm.active }, "time.Sleep")
		return nil
	}, "time.Sleep")

	// ---- math/rand: arbitrary values ---------------------------------------------
	reg(func(t *Task, fn *ssa.Function, args []Value) Value {
		p := t.p
		n := args[len(args)-1].(*Term)
		v := p.Nondet("rand", n.W)
		p.Assume(p.C.And(p.C.Sle(p.C.Const(n.W, 0), v), p.C.Slt(v, n)))
		return v
	}, "math/rand.Intn", "math/rand.Int63n", "math/rand.Int31n", "(*math/rand.Rand).Intn")
	reg(func(t *Task, fn *ssa.Function, args []Value) Value { return nil }, "math/rand.Seed")

	// ---- misc ---------------------------------------------------------------------
	reg(func(t *Task, fn *ssa.Function, args []Value) Value {
		t.p.fail("done", "os.Exit")
		return nil
	}, "os.Exit")
	reg(func(t *Task, fn *ssa.Function, args []Value) Value { return nil }, "runtime.Gosched", "runtime.KeepAlive", "runtime.SetFinalizer", "runtime.GC")
	reg(func(t *Task, fn *ssa.Function, args []Value) Value { return t.p.opaqueString("net.Addr") },
		"(*net.TCPAddr).String", "(*net.UDPAddr).String")
}

func (t *Task) callerPos() string {
	// position of the innermost interpreted frame's function
	if len(t.frames) == 0 {
		return "?"
	}
	fr := t.frames[len(t.frames)-1]
	return fr.fn.String()
}

var _ = fmt.Sprintf
