package sym

import (
	"go/token"
	"go/types"
	"unicode/utf8"

	"golang.org/x/tools/go/ssa"
)

func (t *Task) binop(op token.Token, x, y Value, xt, yt types.Type, pos token.Pos) Value {
	p := t.p
	c := p.C
	switch a := x.(type) {
	case *Term:
		b, ok := y.(*Term)
		if !ok {
			p.unsupported("binop %s on term and %T", op, y)
		}
		if a.W == 0 { // bool
			switch op {
			case token.EQL:
				return c.Eq(a, b)
			case token.NEQ:
				return c.Ne(a, b)
			case token.AND:
				return c.And(a, b)
			case token.OR:
				return c.Or(a, b)
			}
			p.unsupported("bool binop %s", op)
		}
		_, signed, _ := typeWidth(xt)
		switch op {
		case token.SHL, token.SHR:
			return t.shift(op, a, b, signed, yt, pos)
		}
		if a.W != b.W {
			p.fail("inconclusive", "engine: binop width mismatch %d/%d at %s", a.W, b.W, p.W.E.Pos(pos))
		}
		switch op {
		case token.ADD:
			return c.Bin(OpAdd, a, b)
		case token.SUB:
			return c.Bin(OpSub, a, b)
		case token.MUL:
			return c.Bin(OpMul, a, b)
		case token.QUO, token.REM:
			if !p.Branch(c.Ne(b, c.Const(b.W, 0))) {
				t.rtPanic(pos, "integer divide by zero")
			}
			switch {
			case op == token.QUO && signed:
				return c.Bin(OpSDiv, a, b)
			case op == token.QUO:
				return c.Bin(OpUDiv, a, b)
			case signed:
				return c.Bin(OpSRem, a, b)
			default:
				return c.Bin(OpURem, a, b)
			}
		case token.AND:
			return c.Bin(OpBvAnd, a, b)
		case token.OR:
			return c.Bin(OpBvOr, a, b)
		case token.XOR:
			return c.Bin(OpBvXor, a, b)
		case token.AND_NOT:
			return c.Bin(OpBvAnd, a, c.BvNot(b))
		case token.EQL:
			return c.Eq(a, b)
		case token.NEQ:
			return c.Ne(a, b)
		case token.LSS:
			if signed {
				return c.Slt(a, b)
			}
			return c.Ult(a, b)
		case token.LEQ:
			if signed {
				return c.Sle(a, b)
			}
			return c.Ule(a, b)
		case token.GTR:
			if signed {
				return c.Slt(b, a)
			}
			return c.Ult(b, a)
		case token.GEQ:
			if signed {
				return c.Sle(b, a)
			}
			return c.Ule(b, a)
		}
	case FloatVal:
		b := y.(FloatVal)
		switch op {
		case token.ADD:
			return a + b
		case token.SUB:
			return a - b
		case token.MUL:
			return a * b
		case token.QUO:
			return a / b
		case token.EQL:
			return c.Bool(a == b)
		case token.NEQ:
			return c.Bool(a != b)
		case token.LSS:
			return c.Bool(a < b)
		case token.LEQ:
			return c.Bool(a <= b)
		case token.GTR:
			return c.Bool(a > b)
		case token.GEQ:
			return c.Bool(a >= b)
		}
	case StrVal:
		b := y.(StrVal)
		switch op {
		case token.ADD:
			return t.strConcat(a, b)
		case token.EQL:
			return t.strEq(a, b)
		case token.NEQ:
			return c.Not(t.strEq(a, b))
		case token.LSS, token.LEQ, token.GTR, token.GEQ:
			sa, ok1 := p.concreteString(a)
			sb, ok2 := p.concreteString(b)
			if !ok1 || !ok2 {
				p.unsupported("ordered comparison of symbolic strings")
			}
			switch op {
			case token.LSS:
				return c.Bool(sa < sb)
			case token.LEQ:
				return c.Bool(sa <= sb)
			case token.GTR:
				return c.Bool(sa > sb)
			default:
				return c.Bool(sa >= sb)
			}
		}
	}
	switch op {
	case token.EQL:
		return t.valEq(x, y, xt)
	case token.NEQ:
		return c.Not(t.valEq(x, y, xt))
	}
	p.unsupported("binop %s on %T", op, x)
	return nil
}

func (t *Task) shift(op token.Token, a, b *Term, signed bool, yt types.Type, pos token.Pos) Value {
	p := t.p
	c := p.C
	_, ysigned, _ := typeWidth(yt)
	if ysigned {
		if !p.Branch(c.Sle(c.Const(b.W, 0), b)) {
			t.rtPanic(pos, "negative shift amount")
		}
	}
	w := a.W
	b64 := c.Zext(b, 64)
	if b.W == 64 {
		b64 = b
	}
	big := c.Ule(c.Const(64, uint64(w)), b64)
	var amt *Term
	if w <= 64 {
		amt = c.Extract(b64, w-1, 0)
		if w == 64 {
			amt = b64
		}
	}
	switch {
	case op == token.SHL:
		return c.Ite(big, c.Const(w, 0), c.Bin(OpShl, a, amt))
	case signed:
		return c.Ite(big, c.Bin(OpAShr, a, c.Const(w, uint64(w-1))), c.Bin(OpAShr, a, amt))
	default:
		return c.Ite(big, c.Const(w, 0), c.Bin(OpLShr, a, amt))
	}
}

func (t *Task) unop(fr *frame, x *ssa.UnOp) Value {
	p := t.p
	c := p.C
	v := t.get(fr, x.X)
	switch x.Op {
	case token.MUL: // load
		pt := v.(Ptr)
		if pt.O == nil {
			t.rtPanic(x.Pos(), "nil pointer dereference (load)")
		}
		t.preAccess(pt, false)
		return p.load(pt)
	case token.SUB:
		switch a := v.(type) {
		case *Term:
			return c.Neg(a)
		case FloatVal:
			return -a
		}
	case token.NOT:
		return c.Not(v.(*Term))
	case token.XOR:
		return c.BvNot(v.(*Term))
	case token.ARROW:
		ch := v.(*ChanObj)
		val, ok := t.chanRecv(ch, x.Pos())
		if x.CommaOk {
			return Tuple{val, c.Bool(ok)}
		}
		return val
	}
	p.unsupported("unop %s on %T", x.Op, v)
	return nil
}

// valEq compares two values of static type ty.
func (t *Task) valEq(x, y Value, ty types.Type) *Term {
	p := t.p
	c := p.C
	switch a := x.(type) {
	case *Term:
		return c.Eq(a, y.(*Term))
	case FloatVal:
		return c.Bool(a == y.(FloatVal))
	case StrVal:
		return t.strEq(a, y.(StrVal))
	case Ptr:
		b := y.(Ptr)
		return c.Bool(a.O == b.O && (a.O == nil || a.I == b.I))
	case *MapObj:
		return c.Bool(a == y.(*MapObj))
	case *ChanObj:
		return c.Bool(a == y.(*ChanObj))
	case *FuncVal:
		b := y.(*FuncVal)
		if a != nil && b != nil {
			p.unsupported("comparison of two non-nil funcs")
		}
		return c.Bool(a == nil && b == nil)
	case SliceVal:
		b := y.(SliceVal)
		if a.Arr != nil && b.Arr != nil {
			p.unsupported("comparison of two non-nil slices")
		}
		return c.Bool(a.Arr == nil && b.Arr == nil)
	case IfaceVal:
		b := y.(IfaceVal)
		if a.T == nil || b.T == nil {
			return c.Bool(a.T == nil && b.T == nil)
		}
		if !types.Identical(a.T, b.T) {
			return c.False
		}
		return t.valEq(a.V, b.V, a.T)
	case *StructVal:
		b := y.(*StructVal)
		r := c.True
		for i := range a.F {
			r = c.And(r, t.valEq(a.F[i], b.F[i], nil))
		}
		return r
	case *ArrayVal:
		b := y.(*ArrayVal)
		r := c.True
		for i := range a.E {
			r = c.And(r, t.valEq(a.E[i], b.E[i], nil))
		}
		return r
	case Opaque:
		b, ok := y.(Opaque)
		return c.Bool(ok && a.Tag == b.Tag)
	case nil:
		return c.Bool(y == nil)
	}
	p.unsupported("equality on %T", x)
	return nil
}

// ---------------------------------------------------------------------------
// strings

func (t *Task) strByte(s StrVal, i int) *Term {
	if s.Arr == nil || s.Off+i >= len(s.Arr.Slots) {
		return nil
	}
	return s.Arr.Slots[s.Off+i].(*Term)
}

func (t *Task) strEq(a, b StrVal) *Term {
	p := t.p
	c := p.C
	if a.Len.IsConst() && !b.Len.IsConst() {
		a, b = b, a
	}
	// b has the more concrete length
	if !b.Len.IsConst() {
		// both symbolic lengths: concretise one
		p.ConcInt(b.Len, "string length in comparison")
		n := p.Concretize(b.Len, "string length")
		b.Len = c.Const(64, n)
	}
	n := int(b.Len.Val)
	r := c.Eq(a.Len, b.Len)
	if r.IsFalse() {
		return r
	}
	for i := 0; i < n; i++ {
		x, y := t.strByte(a, i), t.strByte(b, i)
		if x == nil || y == nil {
			return c.False
		}
		r = c.And(r, c.Eq(x, y))
		if r.IsFalse() {
			return r
		}
	}
	return r
}

func (t *Task) strConcat(a, b StrVal) StrVal {
	p := t.p
	na := p.ConcInt(a.Len, "string length in concatenation")
	nb := p.ConcInt(b.Len, "string length in concatenation")
	if na == 0 {
		return b
	}
	if nb == 0 {
		return a
	}
	o := p.newObj(KArray, na+nb)
	copy(o.Slots, a.Arr.Slots[a.Off:a.Off+na])
	copy(o.Slots[na:], b.Arr.Slots[b.Off:b.Off+nb])
	return StrVal{Arr: o, Off: 0, Len: p.C.Const(64, uint64(na+nb))}
}

// viewCopy copies the backing store from off to its end into a new object.
func (p *Path) viewCopy(arr *Obj, off int, ln *Term) *Obj {
	if arr == nil {
		return nil
	}
	end := len(arr.Slots)
	if ln.IsConst() && off+int(ln.Val) <= end {
		end = off + int(ln.Val)
	}
	o := p.newObj(KArray, end-off)
	copy(o.Slots, arr.Slots[off:end])
	return o
}

func (t *Task) convert(v Value, from, to types.Type, pos token.Pos) Value {
	p := t.p
	c := p.C
	fu, tu := from.Underlying(), to.Underlying()
	switch a := v.(type) {
	case *Term:
		if tb, ok := tu.(*types.Basic); ok {
			if tw, _, ok := intWidth(tb); ok && tw > 0 {
				_, fsigned, _ := typeWidth(from)
				switch {
				case tw == a.W:
					return a
				case tw < a.W:
					return c.Extract(a, tw-1, 0)
				case fsigned:
					return c.Sext(a, tw)
				default:
					return c.Zext(a, tw)
				}
			}
			switch tb.Kind() {
			case types.Float32, types.Float64:
				_, fsigned, _ := typeWidth(from)
				cv := p.Concretize(a, "int to float conversion")
				if fsigned {
					return FloatVal(float64(signExt(cv, a.W)))
				}
				return FloatVal(float64(cv))
			case types.String:
				// string(rune)
				if !a.IsConst() {
					return p.strFromTerms(t.encodeRuneSym(a))
				}
				return p.mkString(string(rune(signExt(a.Val, a.W))))
			case types.UnsafePointer:
				p.unsupported("conversion to unsafe.Pointer")
			}
		}
	case FloatVal:
		if tb, ok := tu.(*types.Basic); ok {
			if tw, signed, ok := intWidth(tb); ok && tw > 0 {
				if signed {
					return c.Const(tw, uint64(int64(a)))
				}
				return c.Const(tw, uint64(a))
			}
			return a
		}
	case StrVal:
		if ts, ok := tu.(*types.Slice); ok {
			if eb, ok := ts.Elem().Underlying().(*types.Basic); ok && eb.Kind() == types.Uint8 {
				o := p.viewCopy(a.Arr, a.Off, a.Len)
				if o == nil {
					o = p.newObj(KArray, 0)
				}
				return SliceVal{Arr: o, Off: 0, Len: a.Len, Cap: a.Len}
			}
			// []rune(string)
			s, ok := p.concreteString(a)
			if !ok {
				p.unsupported("[]rune of symbolic string")
			}
			rs := []rune(s)
			o := p.newObj(KArray, len(rs))
			for i, r := range rs {
				o.Slots[i] = c.Const(32, uint64(r))
			}
			n := c.Const(64, uint64(len(rs)))
			return SliceVal{Arr: o, Len: n, Cap: n}
		}
		return a
	case SliceVal:
		if tb, ok := tu.(*types.Basic); ok && tb.Kind() == types.String {
			fs := fu.(*types.Slice)
			if eb, ok := fs.Elem().Underlying().(*types.Basic); ok && eb.Kind() == types.Uint8 {
				if a.Arr == nil {
					return StrVal{Len: c.Const(64, 0)}
				}
				return StrVal{Arr: p.viewCopy(a.Arr, a.Off, a.Len), Off: 0, Len: a.Len}
			}
			// string([]rune)
			n := p.ConcInt(a.Len, "rune slice length")
			var bs []*Term
			for i := 0; i < n; i++ {
				r := a.Arr.Slots[a.Off+i].(*Term)
				if r.IsConst() {
					for _, b := range utf8.AppendRune(nil, rune(signExt(r.Val, 32))) {
						bs = append(bs, p.C.Const(8, uint64(b)))
					}
					continue
				}
				bs = append(bs, t.encodeRuneSym(r)...)
			}
			return p.strFromTerms(bs)
		}
		return a
	case Ptr:
		return a
	}
	p.unsupported("conversion %s -> %s at %s", from, to, p.W.E.Pos(pos))
	return nil
}

// ---------------------------------------------------------------------------
// slices

func (t *Task) slice(fr *frame, x *ssa.Slice) Value {
	p := t.p
	c := p.C
	xv := t.get(fr, x.X)
	var lo, hi, mx *Term
	if x.Low != nil {
		lo = t.toInt64(t.get(fr, x.Low).(*Term), x.Low.Type())
	} else {
		lo = c.Const(64, 0)
	}
	if x.High != nil {
		hi = t.toInt64(t.get(fr, x.High).(*Term), x.High.Type())
	}
	if x.Max != nil {
		mx = t.toInt64(t.get(fr, x.Max).(*Term), x.Max.Type())
	}
	zero := c.Const(64, 0)
	switch a := xv.(type) {
	case StrVal:
		if hi == nil {
			hi = a.Len
		}
		ok := c.AndN(c.Sle(zero, lo), c.Sle(lo, hi), c.Sle(hi, a.Len))
		if !p.Branch(ok) {
			t.rtPanic(x.Pos(), "slice bounds out of range (string)")
		}
		l := p.ConcInt(lo, "slice low bound")
		return StrVal{Arr: a.Arr, Off: a.Off + l, Len: c.Sub(hi, lo)}
	case SliceVal:
		if hi == nil {
			hi = a.Len
		}
		capv := a.Cap
		if mx == nil {
			mx = capv
		}
		ok := c.AndN(c.Sle(zero, lo), c.Sle(lo, hi), c.Sle(hi, mx), c.Sle(mx, capv))
		if !p.Branch(ok) {
			t.rtPanic(x.Pos(), "slice bounds out of range")
		}
		if a.Arr == nil {
			return a
		}
		l := p.ConcInt(lo, "slice low bound")
		return SliceVal{Arr: a.Arr, Off: a.Off + l, Len: c.Sub(hi, lo), Cap: c.Sub(mx, lo)}
	case Ptr: // *array
		if a.O == nil {
			t.rtPanic(x.Pos(), "nil pointer dereference (slice of *array)")
		}
		arr := a.O.Slots[a.I].(*Obj)
		n := c.Const(64, uint64(len(arr.Slots)))
		if hi == nil {
			hi = n
		}
		if mx == nil {
			mx = n
		}
		ok := c.AndN(c.Sle(zero, lo), c.Sle(lo, hi), c.Sle(hi, mx), c.Sle(mx, n))
		if !p.Branch(ok) {
			t.rtPanic(x.Pos(), "slice bounds out of range (array)")
		}
		l := p.ConcInt(lo, "slice low bound")
		return SliceVal{Arr: arr, Off: l, Len: c.Sub(hi, lo), Cap: c.Sub(mx, lo)}
	}
	p.unsupported("slice of %T", xv)
	return nil
}

// ---------------------------------------------------------------------------
// maps

func (t *Task) mapFind(m *MapObj, k Value) int {
	if m == nil {
		return -1
	}
	p := t.p
	for i, e := range m.Entries {
		if p.Branch(t.valEq(e.K, k, m.KeyT)) {
			return i
		}
	}
	return -1
}

func (t *Task) mapStore(m *MapObj, k, v Value) {
	if i := t.mapFind(m, k); i >= 0 {
		m.Entries[i].V = v
		return
	}
	m.Entries = append(m.Entries, mapEntry{k, v})
}

func (t *Task) mapDelete(m *MapObj, k Value) {
	if i := t.mapFind(m, k); i >= 0 {
		m.Entries = append(m.Entries[:i:i], m.Entries[i+1:]...)
	}
}

func (t *Task) lookup(fr *frame, x *ssa.Lookup) Value {
	p := t.p
	c := p.C
	xv := t.get(fr, x.X)
	switch a := xv.(type) {
	case StrVal:
		idx := t.get(fr, x.Index).(*Term)
		i := t.checkIndex(idx, x.Index.Type(), a.Len, x.Pos())
		return a.Arr.Slots[a.Off+i]
	case *MapObj:
		k := t.get(fr, x.Index)
		mt := x.X.Type().Underlying().(*types.Map)
		i := t.mapFind(a, k)
		var v Value
		if i >= 0 {
			v = a.Entries[i].V
		} else {
			v = p.zero(mt.Elem())
		}
		if x.CommaOk {
			return Tuple{v, c.Bool(i >= 0)}
		}
		return v
	}
	p.unsupported("lookup on %T", xv)
	return nil
}

type rangeIter struct {
	m      *MapObj
	remain []mapEntry
	s      string
	isStr  bool
	pos    int
	sym    []*Term // symbolic string bytes (length concrete)
}

func (t *Task) mkRange(v Value, ty types.Type) Value {
	p := t.p
	switch a := v.(type) {
	case *MapObj:
		it := &rangeIter{m: a}
		if a != nil {
			it.remain = append(it.remain, a.Entries...)
		}
		return it
	case StrVal:
		s, ok := p.concreteString(a)
		if !ok {
			n := p.ConcInt(a.Len, "length of ranged string")
			bs := make([]*Term, n)
			for i := 0; i < n; i++ {
				bs[i] = a.Arr.Slots[a.Off+i].(*Term)
			}
			return &rangeIter{isStr: true, sym: bs}
		}
		return &rangeIter{isStr: true, s: s}
	}
	p.unsupported("range over %T", v)
	return nil
}

func (t *Task) rangeNext(it *rangeIter, x *ssa.Next) Value {
	p := t.p
	c := p.C
	if it.isStr && it.sym != nil {
		if it.pos >= len(it.sym) {
			return Tuple{c.False, c.Const(64, 0), c.Const(32, 0)}
		}
		r, n := t.decodeRuneSym(it.sym[it.pos:])
		tu := Tuple{c.True, c.Const(64, uint64(it.pos)), r}
		it.pos += n
		return tu
	}
	if it.isStr {
		if it.pos >= len(it.s) {
			return Tuple{c.False, c.Const(64, 0), c.Const(32, 0)}
		}
		r, n := utf8.DecodeRuneInString(it.s[it.pos:])
		tu := Tuple{c.True, c.Const(64, uint64(it.pos)), c.Const(32, uint64(r))}
		it.pos += n
		return tu
	}
	tt := x.Type().(*types.Tuple)
	if len(it.remain) == 0 {
		return Tuple{c.False, p.zero(tt.At(1).Type()), p.zero(tt.At(2).Type())}
	}
	i := 0
	if !p.W.Opts.MapOrderFixed && !p.mapOrderFixed && len(it.remain) > 1 {
		i = p.Choose(len(it.remain), "maporder")
	}
	e := it.remain[i]
	it.remain = append(it.remain[:i:i], it.remain[i+1:]...)
	return Tuple{c.True, e.K, e.V}
}

// ---------------------------------------------------------------------------
// type assertions

func (t *Task) typeAssert(x *ssa.TypeAssert, v Value) Value {
	p := t.p
	c := p.C
	iv := v.(IfaceVal)
	ok := false
	if iv.T != nil {
		if it, isI := x.AssertedType.Underlying().(*types.Interface); isI {
			ok = implements(iv.T, it)
			if !ok && (iv.T == opaqueErrT || iv.T == runtimeErrorT) && isErrorLike(it) {
				ok = true
			}
		} else {
			ok = types.Identical(iv.T, x.AssertedType)
		}
	}
	var res Value
	if _, isI := x.AssertedType.Underlying().(*types.Interface); isI {
		if ok {
			res = iv
		} else {
			res = IfaceVal{}
		}
	} else {
		if ok {
			res = iv.V
		} else {
			res = p.zero(x.AssertedType)
		}
	}
	if x.CommaOk {
		return Tuple{res, c.Bool(ok)}
	}
	if !ok {
		t.rtPanic(x.Pos(), "interface conversion: type assertion failed")
	}
	return res
}

func isErrorLike(it *types.Interface) bool {
	if it.NumMethods() == 0 {
		return true
	}
	return it.NumMethods() == 1 && it.Method(0).Name() == "Error"
}
