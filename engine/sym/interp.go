package sym

import (
	"fmt"
	"go/constant"
	"go/token"
	"go/types"
	"strings"

	"golang.org/x/tools/go/ssa"
)

// Task is one goroutine of the interpreted program.
type Task struct {
	p      *Path
	id     int
	frames []*frame
	resume chan struct{}
	state  int // 0 runnable/running, 1 blocked, 2 done
	blkWhy string
	isMain bool
	fn     *FuncVal
	args   []Value
	wake   func() bool // condition to become runnable again (polled by scheduler)
	name   string

	started   bool
	idleWait  bool
	initDepth int
	heldLocks int
	noPreempt bool
	pending   *pendingAccess
}

type deferred struct {
	fv   *FuncVal
	fn   *ssa.Function
	bi   *ssa.Builtin
	args []Value
	inv  *ssa.CallCommon
	recv Value
}

type frame struct {
	fn        *ssa.Function
	info      *fnInfo
	regs      []Value
	env       []Value
	defers    []deferred
	panicking *goPanic
	caller    *frame
	visits    map[int]int
	deferBy   *frame // set when this frame runs as a deferred call of deferBy
	results   Value
}

func (t *Task) C() *Ctx { return t.p.C }

func (t *Task) rtPanic(site token.Pos, desc string) {
	panic(&goPanic{val: IfaceVal{T: runtimeErrorT, V: Opaque{desc}}, site: t.p.W.E.Pos(site), desc: desc})
}

var runtimeErrorT = types.NewNamed(types.NewTypeName(token.NoPos, nil, "runtime.Error(model)", nil), types.NewStruct(nil, nil), nil)

// call invokes fn with args (and closure environment env).
func (t *Task) call(fn *ssa.Function, args []Value, env []Value) Value {
	p := t.p
	if sub, ok := p.W.E.substFn[fn]; ok {
		fn = sub
	}
	if h := lookupIntrinsic(fn); h != nil {
		return h(t, fn, args)
	}
	return t.callBody(fn, args, env)
}

// callBody interprets fn's own body (used directly by intrinsics that only
// model some argument shapes and fall back to the real code for the others).
func (t *Task) callBody(fn *ssa.Function, args []Value, env []Value) Value {
	p := t.p
	if fn.Synthetic == "package initializer" && t.initDepth > 0 && len(t.frames) > 0 && t.frames[len(t.frames)-1].fn.Synthetic == "package initializer" {
		// inits of imported packages run lazily, on first access to one of their globals
		return nil
	}
	if fn.Blocks == nil {
		p.unsupported("call of function without body: %s", fn.String())
	}
	p.funcsSeen[fn] = true
	if len(t.frames) > 400 {
		p.fail("inconclusive", "call depth exceeded in %s", fn.String())
	}
	fi := p.W.E.info(fn)
	fr := &frame{fn: fn, info: fi, regs: make([]Value, fi.n), env: env}
	if len(t.frames) > 0 {
		fr.caller = t.frames[len(t.frames)-1]
	}
	for i, a := range args {
		fr.regs[i] = a
	}
	for i, fv := range env {
		fr.regs[len(fn.Params)+i] = fv
	}
	t.frames = append(t.frames, fr)
	return t.runFrame(fr)
}

// runFrame runs fr to completion, handling panics/defers/recover.
func (t *Task) runFrame(fr *frame) (ret Value) {
	depth := len(t.frames)
	defer func() {
		r := recover()
		if r == nil {
			t.frames = t.frames[:depth-1]
			return
		}
		gp, ok := r.(*goPanic)
		if !ok {
			panic(r)
		}
		t.frames = t.frames[:depth]
		fr.panicking = gp
		t.runDefersPanicking(fr)
		t.frames = t.frames[:depth-1]
		if fr.panicking != nil {
			panic(fr.panicking)
		}
		// recovered: resume at the Recover block, if any
		if fr.fn.Recover != nil {
			t.frames = append(t.frames, fr)
			ret = t.runBlocks(fr, fr.fn.Recover)
			t.frames = t.frames[:depth-1]
			return
		}
		ret = t.zeroResults(fr.fn)
	}()
	return t.runBlocks(fr, fr.fn.Blocks[0])
}

func (t *Task) zeroResults(fn *ssa.Function) Value {
	res := fn.Signature.Results()
	switch res.Len() {
	case 0:
		return nil
	case 1:
		return t.p.zero(res.At(0).Type())
	}
	tu := make(Tuple, res.Len())
	for i := range tu {
		tu[i] = t.p.zero(res.At(i).Type())
	}
	return tu
}

func (t *Task) runDefersPanicking(fr *frame) {
	for len(fr.defers) > 0 {
		d := fr.defers[len(fr.defers)-1]
		fr.defers = fr.defers[:len(fr.defers)-1]
		func() {
			defer func() {
				if r := recover(); r != nil {
					if gp, ok := r.(*goPanic); ok {
						fr.panicking = gp // a new panic replaces the current one
						return
					}
					panic(r)
				}
			}()
			t.invokeDeferred(fr, d)
		}()
	}
}

func (t *Task) invokeDeferred(fr *frame, d deferred) {
	switch {
	case d.bi != nil:
		t.callBuiltin(fr, d.bi, d.args, token.NoPos, nil)
	case d.fn != nil:
		t.callDeferredFn(fr, d.fn, d.args, nil)
	case d.fv != nil:
		if d.fv.Native != nil {
			d.fv.Native(t, d.args)
			return
		}
		t.callDeferredFn(fr, d.fv.Fn, d.args, d.fv.Env)
	}
}

func (t *Task) callDeferredFn(by *frame, fn *ssa.Function, args []Value, env []Value) {
	p := t.p
	if sub, ok := p.W.E.substFn[fn]; ok {
		fn = sub
	}
	if h := lookupIntrinsic(fn); h != nil {
		h(t, fn, args)
		return
	}
	if fn.Blocks == nil {
		p.unsupported("deferred call of function without body: %s", fn.String())
	}
	p.funcsSeen[fn] = true
	fi := p.W.E.info(fn)
	fr := &frame{fn: fn, info: fi, regs: make([]Value, fi.n), env: env, deferBy: by}
	for i, a := range args {
		fr.regs[i] = a
	}
	for i, fv := range env {
		fr.regs[len(fn.Params)+i] = fv
	}
	t.frames = append(t.frames, fr)
	t.runFrame(fr)
}

func (t *Task) get(fr *frame, v ssa.Value) Value {
	switch x := v.(type) {
	case *ssa.Const:
		return t.p.constValue(x)
	case *ssa.Global:
		return Ptr{t.p.global(t, x), 0}
	case *ssa.Function:
		return &FuncVal{Fn: x}
	case *ssa.Builtin:
		return x
	}
	i, ok := fr.info.idx[v]
	if !ok {
		t.p.fail("inconclusive", "engine: unknown ssa value %s in %s", v.Name(), fr.fn.String())
	}
	return fr.regs[i]
}

func (t *Task) set(fr *frame, v ssa.Value, x Value) {
	fr.regs[fr.info.idx[v]] = x
}

func (t *Task) runBlocks(fr *frame, b *ssa.BasicBlock) Value {
	p := t.p
	var prev *ssa.BasicBlock
	if fr.visits == nil {
		fr.visits = map[int]int{}
	}
	for {
		fr.visits[b.Index]++
		if fr.visits[b.Index] > p.W.Opts.LoopBound+1 {
			p.fail("inconclusive", "unwinding bound %d exceeded in %s block %d", p.W.Opts.LoopBound, fr.fn.String(), b.Index)
		}
		// phis first (simultaneous assignment)
		nphi := 0
		var phiVals []Value
		for _, in := range b.Instrs {
			ph, ok := in.(*ssa.Phi)
			if !ok {
				break
			}
			nphi++
			var pi int
			for i, pr := range b.Preds {
				if pr == prev {
					pi = i
					break
				}
			}
			phiVals = append(phiVals, t.get(fr, ph.Edges[pi]))
		}
		for i := 0; i < nphi; i++ {
			t.set(fr, b.Instrs[i].(*ssa.Phi), phiVals[i])
		}
		var next *ssa.BasicBlock
		for _, in := range b.Instrs[nphi:] {
			p.steps++
			if p.steps > p.W.Opts.MaxSteps {
				p.fail("inconclusive", "step budget exceeded")
			}
			switch x := in.(type) {
			case *ssa.If:
				c := t.get(fr, x.Cond).(*Term)
				if p.Branch(c) {
					next = b.Succs[0]
				} else {
					next = b.Succs[1]
				}
			case *ssa.Jump:
				next = b.Succs[0]
			case *ssa.Return:
				switch len(x.Results) {
				case 0:
					return nil
				case 1:
					return t.get(fr, x.Results[0])
				}
				tu := make(Tuple, len(x.Results))
				for i, r := range x.Results {
					tu[i] = t.get(fr, r)
				}
				return tu
			case *ssa.Panic:
				v := t.get(fr, x.X)
				panic(&goPanic{val: v, site: p.W.E.Pos(x.Pos()), desc: "explicit panic: " + p.describeValue(v)})
			case *ssa.RunDefers:
				for len(fr.defers) > 0 {
					d := fr.defers[len(fr.defers)-1]
					fr.defers = fr.defers[:len(fr.defers)-1]
					t.invokeDeferred(fr, d)
				}
			default:
				t.exec(fr, in)
			}
			if next != nil {
				break
			}
		}
		if next == nil {
			p.fail("inconclusive", "engine: block without terminator in %s", fr.fn.String())
		}
		prev, b = b, next
	}
}

func (t *Task) exec(fr *frame, in ssa.Instruction) {
	p := t.p
	c := p.C
	switch x := in.(type) {
	case *ssa.DebugRef:
	case *ssa.Alloc:
		o := p.newObj(KBox, 1)
		o.Slots[0] = p.zeroSlot(x.Type().Underlying().(*types.Pointer).Elem())
		t.set(fr, x, Ptr{o, 0})
	case *ssa.BinOp:
		t.set(fr, x, t.binop(x.Op, t.get(fr, x.X), t.get(fr, x.Y), x.X.Type(), x.Y.Type(), x.Pos()))
	case *ssa.UnOp:
		t.set(fr, x, t.unop(fr, x))
	case *ssa.Call:
		t.set(fr, x, t.callCommon(fr, &x.Call, x.Pos()))
	case *ssa.ChangeInterface:
		t.set(fr, x, t.get(fr, x.X))
	case *ssa.ChangeType:
		t.set(fr, x, t.get(fr, x.X))
	case *ssa.Convert:
		t.set(fr, x, t.convert(t.get(fr, x.X), x.X.Type(), x.Type(), x.Pos()))
	case *ssa.MakeInterface:
		t.set(fr, x, IfaceVal{T: x.X.Type(), V: t.get(fr, x.X)})
	case *ssa.Extract:
		t.set(fr, x, t.get(fr, x.Tuple).(Tuple)[x.Index])
	case *ssa.Field:
		t.set(fr, x, t.get(fr, x.X).(*StructVal).F[x.Field])
	case *ssa.FieldAddr:
		pt := t.get(fr, x.X).(Ptr)
		if pt.O == nil {
			t.rtPanic(x.Pos(), "nil pointer dereference (field address)")
		}
		t.preAccess(pt, false)
		so := pt.O.Slots[pt.I].(*Obj)
		t.set(fr, x, Ptr{so, x.Field})
	case *ssa.Index:
		av := t.get(fr, x.X)
		idx := t.get(fr, x.Index).(*Term)
		switch a := av.(type) {
		case *ArrayVal:
			i := t.checkIndex(idx, x.Index.Type(), c.Const(64, uint64(len(a.E))), x.Pos())
			t.set(fr, x, a.E[i])
		case StrVal:
			i := t.checkIndex(idx, x.Index.Type(), a.Len, x.Pos())
			t.set(fr, x, a.Arr.Slots[a.Off+i])
		default:
			p.unsupported("Index on %T", av)
		}
	case *ssa.IndexAddr:
		xv := t.get(fr, x.X)
		idx := t.get(fr, x.Index).(*Term)
		switch a := xv.(type) {
		case SliceVal:
			i := t.checkIndex(idx, x.Index.Type(), a.Len, x.Pos())
			t.set(fr, x, Ptr{a.Arr, a.Off + i})
		case Ptr:
			if a.O == nil {
				t.rtPanic(x.Pos(), "nil pointer dereference (index address)")
			}
			arr := a.O.Slots[a.I].(*Obj)
			i := t.checkIndex(idx, x.Index.Type(), c.Const(64, uint64(len(arr.Slots))), x.Pos())
			t.set(fr, x, Ptr{arr, i})
		default:
			p.unsupported("IndexAddr on %T", xv)
		}
	case *ssa.Lookup:
		t.set(fr, x, t.lookup(fr, x))
	case *ssa.MakeMap:
		p.nobj++
		t.set(fr, x, &MapObj{ID: p.nobj, KeyT: x.Type().Underlying().(*types.Map).Key()})
	case *ssa.MakeChan:
		n := p.ConcInt(t.get(fr, x.Size).(*Term), "chan size")
		p.nobj++
		t.set(fr, x, &ChanObj{Cap: n, ID: p.nobj, ElemT: x.Type().Underlying().(*types.Chan).Elem()})
	case *ssa.MakeSlice:
		ln := t.get(fr, x.Len).(*Term)
		cp := t.get(fr, x.Cap).(*Term)
		ln = t.toInt64(ln, x.Len.Type())
		cp = t.toInt64(cp, x.Cap.Type())
		n := p.ConcInt(cp, "make cap")
		if n < 0 || n > 1<<24 {
			t.rtPanic(x.Pos(), "makeslice: cap out of range")
		}
		if !p.Branch(c.And(c.Sle(c.Const(64, 0), ln), c.Sle(ln, cp))) {
			t.rtPanic(x.Pos(), "makeslice: len out of range")
		}
		et := x.Type().Underlying().(*types.Slice).Elem()
		arr := p.newArray(et, n)
		t.set(fr, x, SliceVal{Arr: arr, Off: 0, Len: ln, Cap: c.Const(64, uint64(n))})
	case *ssa.MakeClosure:
		env := make([]Value, len(x.Bindings))
		for i, b := range x.Bindings {
			env[i] = t.get(fr, b)
		}
		t.set(fr, x, &FuncVal{Fn: x.Fn.(*ssa.Function), Env: env})
	case *ssa.MapUpdate:
		m := t.get(fr, x.Map).(*MapObj)
		if m == nil {
			t.rtPanic(x.Pos(), "assignment to entry in nil map")
		}
		t.mapStore(m, t.get(fr, x.Key), t.get(fr, x.Value))
	case *ssa.Range:
		t.set(fr, x, t.mkRange(t.get(fr, x.X), x.X.Type()))
	case *ssa.Next:
		t.set(fr, x, t.rangeNext(t.get(fr, x.Iter).(*rangeIter), x))
	case *ssa.Slice:
		t.set(fr, x, t.slice(fr, x))
	case *ssa.Store:
		pt := t.get(fr, x.Addr).(Ptr)
		if pt.O == nil {
			t.rtPanic(x.Pos(), "nil pointer dereference (store)")
		}
		t.preAccess(pt, true)
		p.store(pt, t.get(fr, x.Val))
	case *ssa.TypeAssert:
		t.set(fr, x, t.typeAssert(x, t.get(fr, x.X)))
	case *ssa.Defer:
		fr.defers = append(fr.defers, t.mkDeferred(fr, &x.Call))
	case *ssa.Go:
		t.goStmt(fr, x)
	case *ssa.Send:
		ch := t.get(fr, x.Chan).(*ChanObj)
		t.chanSend(ch, t.get(fr, x.X), x.Pos())
	case *ssa.Select:
		t.set(fr, x, t.selectStmt(fr, x))
	case *ssa.SliceToArrayPointer:
		sv := t.get(fr, x.X).(SliceVal)
		if sv.Arr == nil {
			t.set(fr, x, Ptr{})
			break
		}
		n := int(x.Type().Underlying().(*types.Pointer).Elem().Underlying().(*types.Array).Len())
		if !p.Branch(c.Ule(c.Const(64, uint64(n)), sv.Len)) {
			t.rtPanic(x.Pos(), "slice to array pointer: length too short")
		}
		// a view: new array object sharing nothing (copy) is wrong for writes; only support reads
		arr := p.newObj(KArray, n)
		copy(arr.Slots, sv.Arr.Slots[sv.Off:sv.Off+n])
		box := p.newObj(KBox, 1)
		box.Slots[0] = arr
		t.set(fr, x, Ptr{box, 0})
	default:
		p.unsupported("instruction %T in %s", in, fr.fn.String())
	}
}

// toInt64 converts an integer term of Go type ty to a 64-bit int term.
func (t *Task) toInt64(v *Term, ty types.Type) *Term {
	if v.W == 64 {
		return v
	}
	_, signed, _ := typeWidth(ty)
	if signed {
		return t.p.C.Sext(v, 64)
	}
	return t.p.C.Zext(v, 64)
}

// checkIndex checks 0 <= idx < n (forking a panic path) and returns the concrete index.
func (t *Task) checkIndex(idx *Term, ity types.Type, n *Term, pos token.Pos) int {
	p := t.p
	i64 := t.toInt64(idx, ity)
	if !p.Branch(p.C.Ult(i64, n)) {
		t.rtPanic(pos, "index out of range")
	}
	return p.ConcInt(i64, "index")
}

func (p *Path) describeValue(v Value) string {
	switch x := v.(type) {
	case IfaceVal:
		if x.T == nil {
			return "nil"
		}
		if s, ok := x.V.(StrVal); ok {
			if str, ok := p.concreteString(s); ok {
				return fmt.Sprintf("%s(%q)", x.T, str)
			}
		}
		if pt, ok := x.V.(Ptr); ok && pt.O != nil {
			// errors.errorString and friends: show the first string field
			if so, ok := pt.O.Slots[pt.I].(*Obj); ok && len(so.Slots) > 0 {
				if s, ok := so.Slots[0].(StrVal); ok {
					if str, ok := p.concreteString(s); ok {
						return fmt.Sprintf("%s(%q)", x.T, str)
					}
				}
			}
		}
		if o, ok := x.V.(Opaque); ok {
			return o.Tag
		}
		return x.T.String()
	}
	return fmt.Sprintf("%T", v)
}

// ---------------------------------------------------------------------------
// zero values, load, store

func (p *Path) zero(t types.Type) Value {
	c := p.C
	switch u := t.Underlying().(type) {
	case *types.Basic:
		if w, _, ok := intWidth(u); ok {
			return c.Const(w, 0)
		}
		switch u.Kind() {
		case types.String, types.UntypedString:
			return StrVal{Len: c.Const(64, 0)}
		case types.Float32, types.Float64, types.UntypedFloat:
			return FloatVal(0)
		case types.UnsafePointer:
			return Ptr{}
		case types.UntypedNil, types.Invalid:
			return nil
		}
	case *types.Pointer:
		return Ptr{}
	case *types.Slice:
		return SliceVal{Len: c.Const(64, 0), Cap: c.Const(64, 0)}
	case *types.Map:
		return (*MapObj)(nil)
	case *types.Chan:
		return (*ChanObj)(nil)
	case *types.Signature:
		return (*FuncVal)(nil)
	case *types.Interface:
		return IfaceVal{}
	case *types.Struct:
		sv := &StructVal{F: make([]Value, u.NumFields())}
		for i := range sv.F {
			sv.F[i] = p.zero(u.Field(i).Type())
		}
		return sv
	case *types.Array:
		av := &ArrayVal{E: make([]Value, int(u.Len()))}
		for i := range av.E {
			av.E[i] = p.zero(u.Elem())
		}
		return av
	case *types.Tuple:
		tu := make(Tuple, u.Len())
		for i := range tu {
			tu[i] = p.zero(u.At(i).Type())
		}
		return tu
	}
	p.unsupported("zero value of %s", t)
	return nil
}

// zeroSlot gives the slot content for a fresh variable of type t.
func (p *Path) zeroSlot(t types.Type) Value {
	switch u := t.Underlying().(type) {
	case *types.Struct:
		o := p.newObj(KStruct, u.NumFields())
		for i := range o.Slots {
			o.Slots[i] = p.zeroSlot(u.Field(i).Type())
		}
		return o
	case *types.Array:
		return p.newArray(u.Elem(), int(u.Len()))
	}
	return p.zero(t)
}

func (p *Path) newArray(elem types.Type, n int) *Obj {
	o := p.newObj(KArray, n)
	if isAggregate(elem) {
		for i := range o.Slots {
			o.Slots[i] = p.zeroSlot(elem)
		}
	} else {
		z := p.zero(elem)
		for i := range o.Slots {
			o.Slots[i] = z
		}
	}
	return o
}

// snapshot turns slot content into an (immutable) value.
func snapshot(s Value) Value {
	o, ok := s.(*Obj)
	if !ok {
		return s
	}
	switch o.Kind {
	case KStruct:
		sv := &StructVal{F: make([]Value, len(o.Slots))}
		for i, x := range o.Slots {
			sv.F[i] = snapshot(x)
		}
		return sv
	case KArray:
		av := &ArrayVal{E: make([]Value, len(o.Slots))}
		for i, x := range o.Slots {
			av.E[i] = snapshot(x)
		}
		return av
	}
	panic("snapshot of box")
}

func (p *Path) load(pt Ptr) Value { return snapshot(pt.O.Slots[pt.I]) }

// store writes value v into the slot (field-wise for aggregates, keeping nested
// object identity so that existing interior pointers stay valid).
func (p *Path) store(pt Ptr, v Value) {
	if pt.I >= len(pt.O.Slots) {
		p.fail("inconclusive", "engine: store out of object bounds")
	}
	pt.O.Slots[pt.I] = p.storeInto(pt.O.Slots[pt.I], v)
}

func (p *Path) storeInto(old Value, v Value) Value {
	switch x := v.(type) {
	case *StructVal:
		o, ok := old.(*Obj)
		if !ok || o.Kind != KStruct || len(o.Slots) != len(x.F) {
			o = p.newObj(KStruct, len(x.F))
		}
		for i, f := range x.F {
			o.Slots[i] = p.storeInto(o.Slots[i], f)
		}
		return o
	case *ArrayVal:
		o, ok := old.(*Obj)
		if !ok || o.Kind != KArray || len(o.Slots) != len(x.E) {
			o = p.newObj(KArray, len(x.E))
		}
		for i, f := range x.E {
			o.Slots[i] = p.storeInto(o.Slots[i], f)
		}
		return o
	}
	return v
}

// ---------------------------------------------------------------------------
// constants and globals

func (p *Path) constValue(k *ssa.Const) Value {
	c := p.C
	if k.Value == nil {
		return p.zero(k.Type())
	}
	switch u := k.Type().Underlying().(type) {
	case *types.Basic:
		if w, _, ok := intWidth(u); ok {
			if w == 0 {
				return c.Bool(constant.BoolVal(k.Value))
			}
			if i, exact := constant.Int64Val(constant.ToInt(k.Value)); exact {
				return c.Const(w, uint64(i))
			}
			ui, _ := constant.Uint64Val(constant.ToInt(k.Value))
			return c.Const(w, ui)
		}
		switch u.Kind() {
		case types.String, types.UntypedString:
			return p.mkString(constant.StringVal(k.Value))
		case types.Float32, types.Float64, types.UntypedFloat:
			f, _ := constant.Float64Val(k.Value)
			return FloatVal(f)
		}
	}
	p.unsupported("constant of type %s", k.Type())
	return nil
}

func (p *Path) mkString(s string) StrVal {
	o, ok := p.W.strObj[s]
	if !ok {
		o = &Obj{Slots: make([]Value, len(s)), Kind: KArray, ID: -1}
		for i := 0; i < len(s); i++ {
			o.Slots[i] = p.C.Const(8, uint64(s[i]))
		}
		p.W.strObj[s] = o
	}
	return StrVal{Arr: o, Off: 0, Len: p.C.Const(64, uint64(len(s)))}
}

// concreteString returns the Go string if length and all bytes are constant.
func (p *Path) concreteString(s StrVal) (string, bool) {
	if !s.Len.IsConst() {
		return "", false
	}
	n := int(s.Len.Val)
	b := make([]byte, n)
	for i := 0; i < n; i++ {
		t := s.Arr.Slots[s.Off+i].(*Term)
		if !t.IsConst() {
			return "", false
		}
		b[i] = byte(t.Val)
	}
	return string(b), true
}

// opaquePkgs: packages whose init functions are not executed; their globals are
// materialised as zero values (identity of error variables is preserved because
// every global has exactly one object).
var opaqueInit = map[string]bool{
	"os": true, "net": true, "syscall": true, "runtime": true, "reflect": true, "fmt": true, "log": true,
	"time": true, "internal/poll": true, "sync": true, "sync/atomic": true, "math/rand": true, "crypto/rand": true,
	"internal/godebug": true, "internal/reflectlite": true, "unicode": true, "os/signal": true,
	"internal/syscall/unix": true, "internal/testlog": true, "internal/oserror": false, "path/filepath": true,
	"errors": true, "unsafe": true, "crypto/tls": true, "crypto/x509": true, "encoding/json": true, "testing": true, "flag": true,
}

func (p *Path) global(t *Task, g *ssa.Global) *Obj {
	if o, ok := p.globals[g]; ok {
		return o
	}
	pkg := g.Pkg
	if pkg != nil && !p.initRun[pkg] {
		p.initRun[pkg] = true
		p.runInit(t, pkg)
		if o, ok := p.globals[g]; ok {
			return o
		}
	}
	return p.globalObj(g)
}

func (p *Path) globalObj(g *ssa.Global) *Obj {
	if o, ok := p.globals[g]; ok {
		return o
	}
	o := p.newObj(KBox, 1)
	o.Tag = g.String()
	o.Slots[0] = p.zeroSlot(g.Type().Underlying().(*types.Pointer).Elem())
	p.globals[g] = o
	return o
}

// runInit executes the package's synthesized init function, skipping the
// inits of imported packages (they run lazily on first access to their globals).
func (p *Path) runInit(t *Task, pkg *ssa.Package) {
	path := pkg.Pkg.Path()
	if opaqueInit[path] || strings.HasPrefix(path, "runtime/") || strings.HasPrefix(path, "internal/runtime") {
		if path == "time" || path == "os" || path == "net" {
			// error variables of these packages need distinct non-nil identities
			p.initErrorGlobals(pkg)
		}
		return
	}
	init := pkg.Func("init")
	if init == nil || init.Blocks == nil {
		return
	}
	saveSteps := p.steps
	func() {
		defer func() {
			if r := recover(); r != nil {
				if pe, ok := r.(pathEnd); ok && pe.status == "inconclusive" {
					// package with an init we cannot run: leave remaining globals zero
					p.inconclInit(path, pe.reason)
					return
				}
				panic(r)
			}
		}()
		t.initDepth++
		defer func() { t.initDepth-- }()
		t.call(init, nil, nil)
	}()
	_ = saveSteps
}

func (p *Path) inconclInit(path, reason string) {
	if strings.HasPrefix(path, "github.com/energomonitor/bisquitt") {
		p.fail("inconclusive", "init of %s: %s", path, reason)
	}
	// foreign package: tolerated, noted
	p.initNotes = append(p.initNotes, path+": "+reason)
}

// initErrorGlobals gives every package-level variable of interface type `error`
// a distinct opaque non-nil value.
func (p *Path) initErrorGlobals(pkg *ssa.Package) {
	for name, m := range pkg.Members {
		g, ok := m.(*ssa.Global)
		if !ok {
			continue
		}
		et := g.Type().Underlying().(*types.Pointer).Elem()
		if types.Identical(et, types.Universe.Lookup("error").Type()) {
			o := p.globalObj(g)
			o.Slots[0] = IfaceVal{T: opaqueErrT, V: Opaque{pkg.Pkg.Path() + "." + name}}
		}
	}
}

var opaqueErrT = types.NewNamed(types.NewTypeName(token.NoPos, nil, "opaqueError(model)", nil), types.NewStruct(nil, nil), nil)
