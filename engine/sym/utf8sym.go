package sym

// Symbolic UTF-8 decoding for `range` over a string whose bytes are symbolic
// (length concrete). The width of each rune must be concrete to advance, so the
// decoder forks over the (at most five) encoding classes of the leading byte.

func (t *Task) decodeRuneSym(bs []*Term) (*Term, int) {
	p := t.p
	c := p.C
	k := func(v uint64) *Term { return c.Const(8, v) }
	in := func(b *Term, lo, hi uint64) *Term { return c.And(c.Ule(k(lo), b), c.Ule(b, k(hi))) }
	z := func(b *Term, mask uint64) *Term { return c.Zext(c.Bin(OpBvAnd, b, k(mask)), 32) }
	shl := func(x *Term, n uint64) *Term { return c.Bin(OpShl, x, c.Const(32, n)) }
	or := func(a, b *Term) *Term { return c.Bin(OpBvOr, a, b) }
	b0 := bs[0]
	if p.Branch(c.Ult(b0, k(0x80))) {
		return c.Zext(b0, 32), 1
	}
	if len(bs) >= 2 {
		b1 := bs[1]
		if p.Branch(c.And(in(b0, 0xC2, 0xDF), in(b1, 0x80, 0xBF))) {
			return or(shl(z(b0, 0x1F), 6), z(b1, 0x3F)), 2
		}
	}
	if len(bs) >= 3 {
		b1, b2 := bs[1], bs[2]
		lead := c.OrN(
			c.And(c.Eq(b0, k(0xE0)), in(b1, 0xA0, 0xBF)),
			c.And(c.Eq(b0, k(0xED)), in(b1, 0x80, 0x9F)),
			c.And(c.And(in(b0, 0xE1, 0xEF), c.Ne(b0, k(0xED))), in(b1, 0x80, 0xBF)))
		if p.Branch(c.And(lead, in(b2, 0x80, 0xBF))) {
			return or(or(shl(z(b0, 0x0F), 12), shl(z(b1, 0x3F), 6)), z(b2, 0x3F)), 3
		}
	}
	if len(bs) >= 4 {
		b1, b2, b3 := bs[1], bs[2], bs[3]
		lead := c.OrN(
			c.And(c.Eq(b0, k(0xF0)), in(b1, 0x90, 0xBF)),
			c.And(c.Eq(b0, k(0xF4)), in(b1, 0x80, 0x8F)),
			c.And(in(b0, 0xF1, 0xF3), in(b1, 0x80, 0xBF)))
		if p.Branch(c.AndN(lead, in(b2, 0x80, 0xBF), in(b3, 0x80, 0xBF))) {
			return or(or(or(shl(z(b0, 0x07), 18), shl(z(b1, 0x3F), 12)), shl(z(b2, 0x3F), 6)), z(b3, 0x3F)), 4
		}
	}
	return c.Const(32, 0xFFFD), 1
}
