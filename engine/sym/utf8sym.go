package sym

import "golang.org/x/tools/go/ssa"

// Symbolic UTF-8 decoding for `range` over a string whose bytes are symbolic
// (length concrete). The width of each rune must be concrete to advance, so the
// decoder forks over the (at most five) encoding classes of the leading byte.

func (t *Task) decodeRuneSym(bs []*Term) (*Term, int) {
	p := t.p
	c := p.C
	k := func(v uint64) *Term { return c.Const(8, v) }
	in := func(b *Term, lo, hi uint64) *Term { return c.And(c.Ule(k(lo), b), c.Ule(b, k(hi))) }
	z := func(b *Term, mask uint64) *Term { return c.Zext(c.Bin(OpBvAnd, b, k(mask)), 32) }
	shl := func(x *Term, n uint64) *Term { return c.Bin(OpShl, x, c.Const(32, n)) }
	or := func(a, b *Term) *Term { return c.Bin(OpBvOr, a, b) }
	b0 := bs[0]
	if p.Branch(c.Ult(b0, k(0x80))) {
		return c.Zext(b0, 32), 1
	}
	if len(bs) >= 2 {
		b1 := bs[1]
		if p.Branch(c.And(in(b0, 0xC2, 0xDF), in(b1, 0x80, 0xBF))) {
			return or(shl(z(b0, 0x1F), 6), z(b1, 0x3F)), 2
		}
	}
	if len(bs) >= 3 {
		b1, b2 := bs[1], bs[2]
		lead := c.OrN(
			c.And(c.Eq(b0, k(0xE0)), in(b1, 0xA0, 0xBF)),
			c.And(c.Eq(b0, k(0xED)), in(b1, 0x80, 0x9F)),
			c.And(c.And(in(b0, 0xE1, 0xEF), c.Ne(b0, k(0xED))), in(b1, 0x80, 0xBF)))
		if p.Branch(c.And(lead, in(b2, 0x80, 0xBF))) {
			return or(or(shl(z(b0, 0x0F), 12), shl(z(b1, 0x3F), 6)), z(b2, 0x3F)), 3
		}
	}
	if len(bs) >= 4 {
		b1, b2, b3 := bs[1], bs[2], bs[3]
		lead := c.OrN(
			c.And(c.Eq(b0, k(0xF0)), in(b1, 0x90, 0xBF)),
			c.And(c.Eq(b0, k(0xF4)), in(b1, 0x80, 0x8F)),
			c.And(in(b0, 0xF1, 0xF3), in(b1, 0x80, 0xBF)))
		if p.Branch(c.AndN(lead, in(b2, 0x80, 0xBF), in(b3, 0x80, 0xBF))) {
			return or(or(or(shl(z(b0, 0x07), 18), shl(z(b1, 0x3F), 12)), shl(z(b2, 0x3F), 6)), z(b3, 0x3F)), 4
		}
	}
	return c.Const(32, 0xFFFD), 1
}

// encodeRuneSym: UTF-8 encoding of a symbolic rune (32-bit term). The number of
// bytes must be concrete, so the encoder forks over the four length classes.
func (t *Task) encodeRuneSym(r *Term) []*Term {
	p := t.p
	c := p.C
	k := func(v uint64) *Term { return c.Const(32, v) }
	b := func(x *Term) *Term { return c.Extract(x, 7, 0) }
	shr := func(x *Term, n uint64) *Term { return c.Bin(OpLShr, x, k(n)) }
	and := func(x *Term, m uint64) *Term { return c.Bin(OpBvAnd, x, k(m)) }
	or := func(x *Term, m uint64) *Term { return c.Bin(OpBvOr, x, k(m)) }
	if r.W != 32 {
		if r.W < 32 {
			r = c.Sext(r, 32)
		} else {
			r = c.Extract(r, 31, 0)
		}
	}
	// invalid runes (negative, surrogates, > 0x10FFFF) encode as U+FFFD
	invalid := c.OrN(c.Slt(r, k(0)), c.And(c.Ule(k(0xD800), r), c.Ule(r, k(0xDFFF))), c.Ult(k(0x10FFFF), r))
	if p.Branch(invalid) {
		return []*Term{c.Const(8, 0xEF), c.Const(8, 0xBF), c.Const(8, 0xBD)}
	}
	if p.Branch(c.Ult(r, k(0x80))) {
		return []*Term{b(r)}
	}
	if p.Branch(c.Ult(r, k(0x800))) {
		return []*Term{b(or(shr(r, 6), 0xC0)), b(or(and(r, 0x3F), 0x80))}
	}
	if p.Branch(c.Ult(r, k(0x10000))) {
		return []*Term{b(or(shr(r, 12), 0xE0)), b(or(and(shr(r, 6), 0x3F), 0x80)), b(or(and(r, 0x3F), 0x80))}
	}
	return []*Term{b(or(shr(r, 18), 0xF0)), b(or(and(shr(r, 12), 0x3F), 0x80)), b(or(and(shr(r, 6), 0x3F), 0x80)), b(or(and(r, 0x3F), 0x80))}
}

func (p *Path) strFromTerms(bs []*Term) StrVal {
	o := p.newObj(KArray, len(bs))
	for i, x := range bs {
		o.Slots[i] = x
	}
	return StrVal{Arr: o, Len: p.C.Const(64, uint64(len(bs)))}
}

func init() {
	// unicode/utf8.RuneCountInString / RuneCount on symbolic bytes: walk the
	// string with the symbolic decoder (forks over encoding classes, not over
	// the 256 values of a table index).
	rc := func(t *Task, fn *ssa.Function, args []Value) Value {
		p := t.p
		var arr *Obj
		var off int
		var ln *Term
		switch s := args[0].(type) {
		case SliceVal:
			arr, off, ln = s.Arr, s.Off, s.Len
		case StrVal:
			arr, off, ln = s.Arr, s.Off, s.Len
		}
		n := p.ConcInt(ln, "length in RuneCount")
		bs := make([]*Term, n)
		conc := true
		for i := 0; i < n; i++ {
			bs[i] = arr.Slots[off+i].(*Term)
			conc = conc && bs[i].IsConst()
		}
		if conc {
			return t.callBody(fn, args, nil)
		}
		cnt := 0
		for i := 0; i < n; {
			_, w := t.decodeRuneSym(bs[i:])
			i += w
			cnt++
		}
		return p.C.Const(64, uint64(cnt))
	}
	utf8Intrinsics = map[string]intrinsic{"unicode/utf8.RuneCountInString": rc, "unicode/utf8.RuneCount": rc}
}

var utf8Intrinsics map[string]intrinsic
