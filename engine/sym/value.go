package sym

import (
	"fmt"
	"go/types"

	"golang.org/x/tools/go/ssa"
)

// Value is a runtime value of the interpreted program:
//
//	*Term        integers (bit-vectors of the Go width) and booleans
//	FloatVal     concrete floats only
//	StrVal       string: view (arr, off, len term)
//	SliceVal     slice: view (arr, off, len term, cap term); arr == nil: nil slice
//	Ptr          pointer to slot i of object o; o == nil: nil pointer
//	*StructVal   struct value (immutable by convention)
//	*ArrayVal    array value (immutable by convention)
//	Tuple        multiple results
//	IfaceVal     interface: dynamic type + payload; T == nil: nil interface
//	*MapObj      map (reference); nil *MapObj: nil map
//	*ChanObj     channel; nil: nil channel
//	*FuncVal     function value / closure; nil: nil func
//	Opaque       a value the engine does not look into (formatting results, foreign handles)
type Value interface{}

type FloatVal float64

type Opaque struct{ Tag string }

type StrVal struct {
	Arr *Obj
	Off int
	Len *Term // width 64
}

type SliceVal struct {
	Arr *Obj
	Off int
	Len *Term
	Cap *Term
}

type Ptr struct {
	O *Obj
	I int
}

type StructVal struct{ F []Value }
type ArrayVal struct{ E []Value }
type Tuple []Value

type IfaceVal struct {
	T types.Type
	V Value
}

type FuncVal struct {
	Fn  *ssa.Function
	Env []Value
	// intrinsic closures (e.g. context cancel funcs created by models)
	Native func(t *Task, args []Value) Value
	Tag    string
}

type ObjKind uint8

const (
	KBox ObjKind = iota // storage of one variable (1 slot) or of a struct's fields
	KStruct
	KArray
)

// Obj is addressable storage: a row of slots. Struct- and array-typed slots hold a
// nested *Obj that is owned by exactly that slot.
type Obj struct {
	Slots []Value
	Kind  ObjKind
	ID    int
	Tag   string
}

type mapEntry struct {
	K, V Value
}

type MapObj struct {
	Entries []mapEntry
	ID      int
	KeyT    types.Type
}

type ChanObj struct {
	Buf    []Value
	Cap    int
	Closed bool
	ID     int
	ElemT  types.Type
	// rendezvous for unbuffered channels: pending senders
	sendq []*chanWaiter
	recvq []*chanWaiter
}

type chanWaiter struct {
	task *Task
	val  Value
	done bool
	ok   bool
	sel  *selState // non-nil when waiting inside a select
	idx  int
}

func (p Ptr) IsNil() bool { return p.O == nil }

func (p Ptr) String() string {
	if p.O == nil {
		return "nil"
	}
	return fmt.Sprintf("&o%d[%d]", p.O.ID, p.I)
}

func isAggregate(t types.Type) bool {
	switch t.Underlying().(type) {
	case *types.Struct, *types.Array:
		return true
	}
	return false
}

func intWidth(b *types.Basic) (w int, signed bool, ok bool) {
	switch b.Kind() {
	case types.Bool, types.UntypedBool:
		return 0, false, true
	case types.Int8:
		return 8, true, true
	case types.Int16:
		return 16, true, true
	case types.Int32, types.UntypedRune:
		return 32, true, true
	case types.Int64, types.Int, types.UntypedInt:
		return 64, true, true
	case types.Uint8:
		return 8, false, true
	case types.Uint16:
		return 16, false, true
	case types.Uint32:
		return 32, false, true
	case types.Uint64, types.Uint, types.Uintptr:
		return 64, false, true
	}
	return 0, false, false
}

func typeWidth(t types.Type) (w int, signed bool, ok bool) {
	if b, isB := t.Underlying().(*types.Basic); isB {
		return intWidth(b)
	}
	return 0, false, false
}
