package sym

import (
	"go/token"
	"go/types"

	"golang.org/x/tools/go/ssa"
)

func (t *Task) evalArgs(fr *frame, cc *ssa.CallCommon) []Value {
	args := make([]Value, len(cc.Args))
	for i, a := range cc.Args {
		args[i] = t.get(fr, a)
	}
	return args
}

// resolveInvoke finds the concrete method for an interface method call.
func (t *Task) resolveInvoke(cc *ssa.CallCommon, recv IfaceVal, pos token.Pos) (*ssa.Function, Value) {
	p := t.p
	if recv.T == nil {
		t.rtPanic(pos, "nil pointer dereference (method call on nil interface)")
	}
	if recv.T == opaqueErrT || recv.T == runtimeErrorT {
		return nil, recv.V
	}
	fn := p.W.E.Prog.LookupMethod(recv.T, cc.Method.Pkg(), cc.Method.Name())
	if fn == nil {
		p.unsupported("method %s not found on %s", cc.Method.Name(), recv.T)
	}
	return fn, recv.V
}

func (t *Task) callCommon(fr *frame, cc *ssa.CallCommon, pos token.Pos) Value {
	_ = t.p
	if cc.IsInvoke() {
		recv := t.get(fr, cc.Value).(IfaceVal)
		fn, rv := t.resolveInvoke(cc, recv, pos)
		if fn == nil {
			// opaque error values: only Error() makes sense
			return t.opaqueMethod(cc.Method.Name(), rv)
		}
		args := append([]Value{rv}, t.evalArgs(fr, cc)...)
		return t.call(fn, args, nil)
	}
	switch f := cc.Value.(type) {
	case *ssa.Function:
		return t.call(f, t.evalArgs(fr, cc), nil)
	case *ssa.Builtin:
		return t.callBuiltin(fr, f, t.evalArgs(fr, cc), pos, cc)
	}
	fv := t.get(fr, cc.Value).(*FuncVal)
	if fv == nil {
		t.rtPanic(pos, "nil pointer dereference (call of nil func)")
	}
	args := t.evalArgs(fr, cc)
	return t.callFuncVal(fv, args)
}

func (t *Task) callFuncVal(fv *FuncVal, args []Value) Value {
	if fv.Native != nil {
		return fv.Native(t, args)
	}
	return t.call(fv.Fn, args, fv.Env)
}

func (t *Task) opaqueMethod(name string, rv Value) Value {
	p := t.p
	switch name {
	case "Error", "String":
		tag := "opaque"
		if o, ok := rv.(Opaque); ok {
			tag = o.Tag
		}
		return p.mkString(tag)
	case "Timeout", "Temporary":
		return p.C.False
	case "Unwrap":
		return IfaceVal{}
	}
	p.unsupported("method %s on opaque value", name)
	return nil
}

func (t *Task) mkDeferred(fr *frame, cc *ssa.CallCommon) deferred {
	p := t.p
	if cc.IsInvoke() {
		recv := t.get(fr, cc.Value).(IfaceVal)
		fn, rv := t.resolveInvoke(cc, recv, cc.Pos())
		if fn == nil {
			p.unsupported("deferred method on opaque value")
		}
		return deferred{fn: fn, args: append([]Value{rv}, t.evalArgs(fr, cc)...)}
	}
	switch f := cc.Value.(type) {
	case *ssa.Function:
		return deferred{fn: f, args: t.evalArgs(fr, cc)}
	case *ssa.Builtin:
		return deferred{bi: f, args: t.evalArgs(fr, cc)}
	}
	fv := t.get(fr, cc.Value).(*FuncVal)
	if fv == nil {
		t.rtPanic(cc.Pos(), "defer of nil func")
	}
	return deferred{fv: fv, args: t.evalArgs(fr, cc)}
}

func (t *Task) callBuiltin(fr *frame, b *ssa.Builtin, args []Value, pos token.Pos, cc *ssa.CallCommon) Value {
	p := t.p
	c := p.C
	switch b.Name() {
	case "len":
		switch a := args[0].(type) {
		case StrVal:
			return a.Len
		case SliceVal:
			return a.Len
		case *MapObj:
			if a == nil {
				return c.Const(64, 0)
			}
			return c.Const(64, uint64(len(a.Entries)))
		case *ChanObj:
			if a == nil {
				return c.Const(64, 0)
			}
			return c.Const(64, uint64(len(a.Buf)))
		case *ArrayVal:
			return c.Const(64, uint64(len(a.E)))
		case Ptr: // *array
			if a.O == nil {
				// len of nil *[N]T is N, statically known
				n := cc.Args[0].Type().Underlying().(*types.Pointer).Elem().Underlying().(*types.Array).Len()
				return c.Const(64, uint64(n))
			}
			return c.Const(64, uint64(len(a.O.Slots[a.I].(*Obj).Slots)))
		}
	case "cap":
		switch a := args[0].(type) {
		case SliceVal:
			return a.Cap
		case *ChanObj:
			if a == nil {
				return c.Const(64, 0)
			}
			return c.Const(64, uint64(a.Cap))
		case *ArrayVal:
			return c.Const(64, uint64(len(a.E)))
		}
	case "append":
		return t.builtinAppend(args[0].(SliceVal), args[1], cc)
	case "copy":
		dst := args[0].(SliceVal)
		var srcArr *Obj
		var srcOff int
		var srcLen *Term
		switch s := args[1].(type) {
		case SliceVal:
			srcArr, srcOff, srcLen = s.Arr, s.Off, s.Len
		case StrVal:
			srcArr, srcOff, srcLen = s.Arr, s.Off, s.Len
		}
		nd := p.ConcInt(dst.Len, "copy dst length")
		ns := p.ConcInt(srcLen, "copy src length")
		n := nd
		if ns < n {
			n = ns
		}
		if n > 0 {
			tmp := make([]Value, n)
			copy(tmp, srcArr.Slots[srcOff:srcOff+n])
			for i := 0; i < n; i++ {
				dst.Arr.Slots[dst.Off+i] = p.storeInto(dst.Arr.Slots[dst.Off+i], snapshot(tmp[i]))
			}
		}
		return c.Const(64, uint64(n))
	case "delete":
		m := args[0].(*MapObj)
		if m != nil {
			t.mapDelete(m, args[1])
		}
		return nil
	case "close":
		ch := args[0].(*ChanObj)
		t.chanClose(ch, pos)
		return nil
	case "panic":
		panic(&goPanic{val: args[0], site: p.W.E.Pos(pos), desc: "explicit panic: " + p.describeValue(args[0])})
	case "recover":
		// recover is effective only when called directly by a deferred function
		// while its deferring frame is panicking
		cur := fr
		if cur != nil && cur.deferBy != nil && cur.deferBy.panicking != nil {
			gp := cur.deferBy.panicking
			cur.deferBy.panicking = nil
			if iv, ok := gp.val.(IfaceVal); ok {
				return iv
			}
			return IfaceVal{T: types.Typ[types.String], V: p.mkString(gp.desc)}
		}
		return IfaceVal{}
	case "print", "println":
		return nil
	case "min", "max":
		r := args[0]
		for _, a := range args[1:] {
			x, y := r.(*Term), a.(*Term)
			_, signed, _ := typeWidth(cc.Args[0].Type())
			var lt *Term
			if signed {
				lt = c.Slt(x, y)
			} else {
				lt = c.Ult(x, y)
			}
			if b.Name() == "min" {
				r = c.Ite(lt, x, y)
			} else {
				r = c.Ite(lt, y, x)
			}
		}
		return r
	case "clear":
		switch a := args[0].(type) {
		case *MapObj:
			if a != nil {
				a.Entries = nil
			}
			return nil
		}
	case "ssa:wrapnilchk":
		pt := args[0].(Ptr)
		if pt.O == nil {
			t.rtPanic(pos, "nil pointer dereference (value method called via nil pointer)")
		}
		return args[0]
	}
	p.unsupported("builtin %s(%T)", b.Name(), args[0])
	return nil
}

func (t *Task) builtinAppend(s SliceVal, more Value, cc *ssa.CallCommon) Value {
	p := t.p
	c := p.C
	var srcArr *Obj
	var srcOff int
	var srcLen *Term
	switch m := more.(type) {
	case SliceVal:
		srcArr, srcOff, srcLen = m.Arr, m.Off, m.Len
	case StrVal:
		srcArr, srcOff, srcLen = m.Arr, m.Off, m.Len
	}
	n2 := p.ConcInt(srcLen, "append source length")
	if n2 == 0 {
		return s
	}
	n1 := p.ConcInt(s.Len, "append destination length")
	cp := p.ConcInt(s.Cap, "append destination capacity")
	tmp := make([]Value, n2)
	for i := 0; i < n2; i++ {
		tmp[i] = snapshot(srcArr.Slots[srcOff+i])
	}
	if n1+n2 <= cp && s.Arr != nil {
		for i := 0; i < n2; i++ {
			s.Arr.Slots[s.Off+n1+i] = p.storeInto(s.Arr.Slots[s.Off+n1+i], tmp[i])
		}
		return SliceVal{Arr: s.Arr, Off: s.Off, Len: c.Const(64, uint64(n1+n2)), Cap: s.Cap}
	}
	ncap := 2 * cp
	if ncap < n1+n2 {
		ncap = n1 + n2
	}
	var et types.Type
	if cc != nil {
		et = cc.Args[0].Type().Underlying().(*types.Slice).Elem()
	}
	var arr *Obj
	if et != nil {
		arr = p.newArray(et, ncap)
	} else {
		arr = p.newObj(KArray, ncap)
	}
	for i := 0; i < n1; i++ {
		arr.Slots[i] = p.storeInto(arr.Slots[i], snapshot(s.Arr.Slots[s.Off+i]))
	}
	for i := 0; i < n2; i++ {
		arr.Slots[n1+i] = p.storeInto(arr.Slots[n1+i], tmp[i])
	}
	return SliceVal{Arr: arr, Off: 0, Len: c.Const(64, uint64(n1+n2)), Cap: c.Const(64, uint64(ncap))}
}
