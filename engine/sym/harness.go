package sym

import (
	"fmt"
	"go/types"

	"golang.org/x/tools/go/ssa"
)

// The harness vocabulary. Each of these has an ordinary Go body in the overlay
// file (reading a replay tape), which is what runs natively; the engine
// intercepts the calls by name and never looks at those bodies.
var harnessAPI map[string]intrinsic

func (p *Path) constStr(v Value, what string) string {
	s, ok := p.concreteString(v.(StrVal))
	if !ok {
		p.fail("inconclusive", "harness: %s must be a constant string", what)
	}
	return s
}

func init() {
	harnessAPI = map[string]intrinsic{}
	nondet := func(w int) intrinsic {
		return func(t *Task, fn *ssa.Function, args []Value) Value {
			return t.p.Nondet(t.p.constStr(args[0], "label"), w)
		}
	}
	harnessAPI["vNondetU8"] = nondet(8)
	harnessAPI["vNondetU16"] = nondet(16)
	harnessAPI["vNondetU32"] = nondet(32)
	harnessAPI["vNondetU64"] = nondet(64)
	harnessAPI["vNondetInt"] = nondet(64)
	harnessAPI["vNondetBool"] = nondet(0)
	harnessAPI["vNondetBytes"] = func(t *Task, fn *ssa.Function, args []Value) Value {
		p := t.p
		label := p.constStr(args[0], "label")
		n := p.ConcInt(args[1].(*Term), "vNondetBytes length")
		arr := p.newObj(KArray, n)
		for i := 0; i < n; i++ {
			arr.Slots[i] = p.Nondet(label, 8)
		}
		ln := p.C.Const(64, uint64(n))
		return SliceVal{Arr: arr, Len: ln, Cap: ln}
	}
	harnessAPI["vNondetString"] = func(t *Task, fn *ssa.Function, args []Value) Value {
		p := t.p
		label := p.constStr(args[0], "label")
		n := p.ConcInt(args[1].(*Term), "vNondetString length")
		arr := p.newObj(KArray, n)
		for i := 0; i < n; i++ {
			arr.Slots[i] = p.Nondet(label, 8)
		}
		return StrVal{Arr: arr, Len: p.C.Const(64, uint64(n))}
	}
	// vDatagram(label, buf) int: fills buf with a datagram of symbolic length
	// n in [0, len(buf)] (bytes beyond n are zero) and returns n.
	harnessAPI["vDatagram"] = func(t *Task, fn *ssa.Function, args []Value) Value {
		p := t.p
		c := p.C
		label := p.constStr(args[0], "label")
		buf := args[1].(SliceVal)
		m := p.ConcInt(buf.Len, "vDatagram buffer length")
		n := p.Nondet(label+".n", 64)
		p.Assume(c.Ule(n, c.Const(64, uint64(m))))
		for i := 0; i < m; i++ {
			b := p.Nondet(label, 8)
			buf.Arr.Slots[buf.Off+i] = c.Ite(c.Ult(c.Const(64, uint64(i)), n), b, c.Const(8, 0))
		}
		return n
	}
	harnessAPI["vChoose"] = func(t *Task, fn *ssa.Function, args []Value) Value {
		p := t.p
		n := p.ConcInt(args[0].(*Term), "vChoose arity")
		k := p.Choose(n, "vChoose")
		p.choices = append(p.choices, k)
		return p.C.Const(64, uint64(k))
	}
	harnessAPI["vAnd"] = func(t *Task, fn *ssa.Function, args []Value) Value {
		return t.p.C.And(args[0].(*Term), args[1].(*Term))
	}
	harnessAPI["vOr"] = func(t *Task, fn *ssa.Function, args []Value) Value {
		return t.p.C.Or(args[0].(*Term), args[1].(*Term))
	}
	harnessAPI["vImplies"] = func(t *Task, fn *ssa.Function, args []Value) Value {
		return t.p.C.Implies(args[0].(*Term), args[1].(*Term))
	}
	harnessAPI["vActive"] = func(t *Task, fn *ssa.Function, args []Value) Value {
		p := t.p
		pf := p.W.Opts.AssertPrefix
		return p.C.Bool(pf == "" || pf == p.constStr(args[0], "prefix"))
	}
	harnessAPI["vReachIf"] = func(t *Task, fn *ssa.Function, args []Value) Value {
		p := t.p
		label := p.constStr(args[1], "reach label")
		cond := args[0].(*Term)
		if p.reached[label] || cond.IsFalse() {
			return nil
		}
		if cond.IsTrue() {
			p.reached[label] = true
			return nil
		}
		if p.W.Opts.Concrete != nil {
			if p.C.Eval(cond, p.W.Opts.Concrete) == 1 {
				p.reached[label] = true
			}
			return nil
		}
		if p.W.reachedIf[label] {
			return nil // already witnessed by an earlier path of this worker
		}
		if p.pos < len(p.dec) {
			return nil
		}
		if p.C.Eval(cond, p.getModel()) == 1 {
			p.reached[label] = true
			p.W.reachedIf[label] = true
			return nil
		}
		if res, _ := p.check(cond); res == Sat {
			p.reached[label] = true
			p.W.reachedIf[label] = true
		}
		return nil
	}
	harnessAPI["vIte"] = func(t *Task, fn *ssa.Function, args []Value) Value {
		return t.p.C.Ite(args[0].(*Term), args[1].(*Term), args[2].(*Term))
	}
	harnessAPI["vAssume"] = func(t *Task, fn *ssa.Function, args []Value) Value {
		t.p.Assume(args[0].(*Term))
		return nil
	}
	harnessAPI["vAssert"] = func(t *Task, fn *ssa.Function, args []Value) Value {
		p := t.p
		p.Assert(args[0].(*Term), p.constStr(args[1], "assert label"), t.harnessSite())
		return nil
	}
	harnessAPI["vReach"] = func(t *Task, fn *ssa.Function, args []Value) Value {
		t.p.reached[t.p.constStr(args[0], "reach label")] = true
		return nil
	}
	harnessAPI["vLabel"] = func(t *Task, fn *ssa.Function, args []Value) Value {
		t.p.labels[t.p.constStr(args[0], "label")] = args[1].(*Term)
		return nil
	}
	harnessAPI["vObserveInt"] = func(t *Task, fn *ssa.Function, args []Value) Value {
		p := t.p
		v := args[1].(*Term)
		s := show(v, 4)
		if v.IsConst() {
			s = fmt.Sprint(int64(v.Val))
		}
		p.obs = append(p.obs, Observation{p.constStr(args[0], "label"), s})
		return nil
	}
	harnessAPI["vObserveBytes"] = func(t *Task, fn *ssa.Function, args []Value) Value {
		p := t.p
		sv := args[1].(SliceVal)
		s := "?"
		if sv.Len.IsConst() {
			n := int(sv.Len.Val)
			bs := make([]byte, 0, n)
			ok := true
			for i := 0; i < n; i++ {
				b := sv.Arr.Slots[sv.Off+i].(*Term)
				if !b.IsConst() {
					ok = false
					break
				}
				bs = append(bs, byte(b.Val))
			}
			if ok {
				s = fmt.Sprintf("%x", bs)
			}
		}
		p.obs = append(p.obs, Observation{p.constStr(args[0], "label"), s})
		return nil
	}
	harnessAPI["vObserveStr"] = func(t *Task, fn *ssa.Function, args []Value) Value {
		p := t.p
		s, ok := p.concreteString(args[1].(StrVal))
		if !ok {
			s = "?"
		}
		p.obs = append(p.obs, Observation{p.constStr(args[0], "label"), fmt.Sprintf("%q", s)})
		return nil
	}
	// ---- tasks and virtual time ----
	harnessAPI["vGo"] = func(t *Task, fn *ssa.Function, args []Value) Value {
		fv := args[0].(*FuncVal)
		nt := t.p.newTask(fv)
		nt.name = "vGo"
		return nil
	}
	harnessAPI["vRunUntilIdle"] = func(t *Task, fn *ssa.Function, args []Value) Value {
		t.runUntilIdle()
		return nil
	}
	harnessAPI["vYield"] = func(t *Task, fn *ssa.Function, args []Value) Value {
		t.yield()
		return nil
	}
	// vAdvance fires the earliest pending timer (advancing virtual time to its
	// deadline), lets everything run until idle, and reports whether a timer fired.
	harnessAPI["vAdvance"] = func(t *Task, fn *ssa.Function, args []Value) Value {
		p := t.p
		before := p.now
		if !p.fireNextTimer(t) {
			p.advances = append(p.advances, advRec{before, before, false})
			return p.C.False
		}
		t.runUntilIdle()
		p.advances = append(p.advances, advRec{before, p.now, true})
		return p.C.True
	}
	// vSleepUntil(t): let virtual time pass up to instant t (ns): every timer due
	// by then fires in order (the tasks they start run until idle).
	harnessAPI["vSleepUntil"] = func(t *Task, fn *ssa.Function, args []Value) Value {
		p := t.p
		c := p.C
		target := args[0].(*Term)
		for n := 0; ; n++ {
			if n > 100000 {
				p.fail("inconclusive", "vSleepUntil: too many timer events")
			}
			tm := p.earliestTimer()
			if tm == nil || !p.Branch(c.Sle(tm.deadline, target)) {
				break
			}
			if p.Branch(c.Slt(p.now, tm.deadline)) {
				p.now = tm.deadline
			}
			p.fire(tm)
			t.runUntilIdle()
		}
		if p.Branch(c.Slt(p.now, target)) {
			p.now = target
		}
		return nil
	}
	// vNondetDelay: a symbolic duration (ns); native replays get a value re-solved
	// into [20 ms, 200 ms] when the path condition allows it.
	harnessAPI["vNondetDelay"] = func(t *Task, fn *ssa.Function, args []Value) Value {
		p := t.p
		v := p.Nondet(p.constStr(args[0], "label"), 64)
		if p.W.Opts.Concrete == nil {
			p.delayVars = append(p.delayVars, v)
		}
		return v
	}
	// vTimeEq: exact equality of two virtual instants (natively: within a tolerance).
	harnessAPI["vTimeEq"] = func(t *Task, fn *ssa.Function, args []Value) Value {
		return t.p.C.Eq(args[0].(*Term), args[1].(*Term))
	}
	harnessAPI["vTimeLe"] = func(t *Task, fn *ssa.Function, args []Value) Value {
		return t.p.C.Sle(args[0].(*Term), args[1].(*Term))
	}
	harnessAPI["vNow"] = func(t *Task, fn *ssa.Function, args []Value) Value { return t.p.now }
	harnessAPI["vPendingTimers"] = func(t *Task, fn *ssa.Function, args []Value) Value {
		return t.p.C.Const(64, uint64(t.p.pendingTimers()))
	}
	harnessAPI["vLiveTasks"] = func(t *Task, fn *ssa.Function, args []Value) Value {
		n := 0
		for _, o := range t.p.tasks {
			if !o.isMain && o.state != 2 {
				n++
			}
		}
		return t.p.C.Const(64, uint64(n))
	}
	harnessAPI["vSchedNondet"] = func(t *Task, fn *ssa.Function, args []Value) Value {
		t.p.schedNondet = t.p.Branch(args[0].(*Term))
		return nil
	}
	// vRaces: number of data races seen so far on this path (conflicting pending
	// accesses of two runnable tasks, neither holding a lock; only with vPreempt > 0)
	harnessAPI["vRaces"] = func(t *Task, fn *ssa.Function, args []Value) Value {
		return t.p.C.Const(64, uint64(len(t.p.races)))
	}
	harnessAPI["vPreempt"] = func(t *Task, fn *ssa.Function, args []Value) Value {
		t.p.preemptBound = t.p.ConcInt(args[0].(*Term), "preemption bound")
		return nil
	}
	harnessAPI["vMapOrderFixed"] = func(t *Task, fn *ssa.Function, args []Value) Value {
		t.p.mapOrderFixed = t.p.Branch(args[0].(*Term))
		return nil
	}
}

func (t *Task) harnessSite() string {
	for i := len(t.frames) - 1; i >= 0; i-- {
		return t.frames[i].fn.Name()
	}
	return "?"
}

// ---------------------------------------------------------------------------
// Layer 3 hooks: pre-emption points before shared accesses and sync operations.

func (t *Task) preAccess(pt Ptr, write bool) {
	if t.p.preemptBound > 0 {
		t.preAccessKey(sideKey{pt.O, pt.I}, write)
	}
}

func (t *Task) preSync(v Value) {
	if t.p.preemptBound > 0 {
		pt := v.(Ptr)
		t.maybePreempt(sideKey{pt.O, pt.I}, true, true)
	}
}

func (t *Task) preAccessKey(k sideKey, write bool) {
	if t.p.preemptBound > 0 {
		t.maybePreempt(k, write, false)
	}
}

type pendingAccess struct {
	k     sideKey
	write bool
	sync  bool
	locks int
}

// maybePreempt offers a pre-emptive context switch before an access to a
// location that another live task has touched (or may touch).
func (t *Task) maybePreempt(k sideKey, write, sync bool) {
	p := t.p
	if t.initDepth > 0 || t.noPreempt {
		return
	}
	// only objects marked shared (reachable by more than one task) matter
	if !sync && !p.isShared(k.o) {
		return
	}
	t.pending = &pendingAccess{k, write, sync, t.heldLocks}
	defer func() { t.pending = nil }()
	// data-race check: another runnable task whose pending access conflicts
	if !sync {
		for _, o := range p.tasks {
			if o == t || o.state == 2 || o.pending == nil || o.pending.sync {
				continue
			}
			if o.pending.k == k && (o.pending.write || write) && o.pending.locks == 0 && t.heldLocks == 0 {
				p.races = append(p.races, fmt.Sprintf("data race on o%d[%d] between goroutine %d (%s) and %d (%s)", k.o.ID, k.i, t.id, t.callerPos(), o.id, o.callerPos()))
			}
		}
	}
	if p.preemptUsed >= p.preemptBound {
		return
	}
	others := 0
	for _, o := range p.runnable(t) {
		if !o.idleWait {
			others++
		}
	}
	if others == 0 {
		return
	}
	if p.Choose(2, "preempt") == 1 {
		p.preemptUsed++
		if debugPreempt {
			fmt.Printf("PREEMPT g%d at %s (others=%d)\n", t.id, t.callerPos(), others)
		}
		t.yield()
	}
}

func (p *Path) isShared(o *Obj) bool {
	if o == nil {
		return false
	}
	return p.shared == nil || p.shared[o]
}

var _ = types.Typ
