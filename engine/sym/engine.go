package sym

import (
	"fmt"
	"go/token"
	"go/types"
	"sort"
	"strings"
	"sync"

	"golang.org/x/tools/go/packages"
	"golang.org/x/tools/go/ssa"
	"golang.org/x/tools/go/ssa/ssautil"
)

// Engine holds what is shared (read-only) by all workers: the SSA program built
// from /repo's current working tree plus the harness overlay.
type Engine struct {
	Prog     *ssa.Program
	Fset     *token.FileSet
	Pkgs     []*packages.Package
	SSAPkgs  map[string]*ssa.Package // by import path
	fnInfo   sync.Map               // *ssa.Function -> *fnInfo
	Subst    map[string]string      // qualified func name -> harness func name (qualified)
	substFn  map[*ssa.Function]*ssa.Function
	Overlay  map[string][]byte
	LoadErrs []string
	fnOnce   sync.Once
	fnByName map[string]*ssa.Function
}

type fnInfo struct {
	idx  map[ssa.Value]int
	n    int
	name string
}

// Load type-checks the given package patterns under dir with the overlay files
// injected, and builds SSA for the whole dependency closure.
func Load(dir string, overlay map[string][]byte, patterns ...string) (*Engine, error) {
	cfg := &packages.Config{
		Mode:    packages.LoadAllSyntax,
		Dir:     dir,
		Overlay: overlay,
		Env:     nil,
	}
	pkgs, err := packages.Load(cfg, patterns...)
	if err != nil {
		return nil, err
	}
	e := &Engine{Pkgs: pkgs, SSAPkgs: map[string]*ssa.Package{}, Subst: map[string]string{}, substFn: map[*ssa.Function]*ssa.Function{}, Overlay: overlay}
	packages.Visit(pkgs, nil, func(p *packages.Package) {
		for _, er := range p.Errors {
			e.LoadErrs = append(e.LoadErrs, er.Error())
		}
	})
	if len(e.LoadErrs) > 0 {
		return e, fmt.Errorf("load errors: %s", strings.Join(e.LoadErrs, "; "))
	}
	prog, _ := ssautil.AllPackages(pkgs, ssa.InstantiateGenerics)
	prog.Build()
	e.Prog = prog
	if len(pkgs) > 0 {
		e.Fset = pkgs[0].Fset
	}
	for _, p := range prog.AllPackages() {
		e.SSAPkgs[p.Pkg.Path()] = p
	}
	return e, nil
}

// Func looks up a package-level function "pkgpath.Name".
func (e *Engine) Func(pkgPath, name string) *ssa.Function {
	p := e.SSAPkgs[pkgPath]
	if p == nil {
		return nil
	}
	return p.Func(name)
}

// HarnessFuncs lists the functions of pkgPath whose name starts with prefix, sorted.
func (e *Engine) HarnessFuncs(pkgPath, prefix string) []string {
	p := e.SSAPkgs[pkgPath]
	if p == nil {
		return nil
	}
	var out []string
	for name, m := range p.Members {
		if _, ok := m.(*ssa.Function); ok && strings.HasPrefix(name, prefix) {
			out = append(out, name)
		}
	}
	sort.Strings(out)
	return out
}

func (e *Engine) info(fn *ssa.Function) *fnInfo {
	if v, ok := e.fnInfo.Load(fn); ok {
		return v.(*fnInfo)
	}
	fi := &fnInfo{idx: map[ssa.Value]int{}, name: fn.String()}
	add := func(v ssa.Value) {
		fi.idx[v] = fi.n
		fi.n++
	}
	for _, p := range fn.Params {
		add(p)
	}
	for _, fv := range fn.FreeVars {
		add(fv)
	}
	for _, b := range fn.Blocks {
		for _, in := range b.Instrs {
			if v, ok := in.(ssa.Value); ok {
				add(v)
			}
		}
	}
	act, _ := e.fnInfo.LoadOrStore(fn, fi)
	return act.(*fnInfo)
}

// Pos renders an instruction position relative to /repo.
func (e *Engine) Pos(p token.Pos) string {
	if !p.IsValid() || e.Fset == nil {
		return "?"
	}
	ps := e.Fset.Position(p)
	return fmt.Sprintf("%s:%d", strings.TrimPrefix(ps.Filename, "/repo/"), ps.Line)
}

// implements reports whether dynamic type T satisfies interface type I.
func implements(T types.Type, I *types.Interface) bool {
	return types.Implements(T, I)
}

func (e *Engine) allFuncs() map[string]*ssa.Function {
	e.fnOnce.Do(func() {
		e.fnByName = map[string]*ssa.Function{}
		for fn := range ssautil.AllFunctions(e.Prog) {
			e.fnByName[fn.String()] = fn
		}
	})
	return e.fnByName
}

// AddSubst makes every call of `from` run `to` instead (both by fn.String()).
func (e *Engine) AddSubst(from, to string) error {
	fs := e.allFuncs()
	f, ok := fs[from]
	if !ok {
		return fmt.Errorf("substituted function %s not found", from)
	}
	t, ok := fs[to]
	if !ok {
		return fmt.Errorf("substitute %s not found", to)
	}
	e.substFn[f] = t
	e.Subst[from] = to
	return nil
}

// CallSites lists the repository functions containing a static call of callee
// (by fn.String()), and which of them are not in the executed set.
func (e *Engine) CallSites(callee string, executed map[string]bool) (sites []string, uncovered []string) {
	seen := map[string]bool{}
	// "callee|pkgpath": only call sites in functions of that package count
	onlyPkg := ""
	if i := strings.Index(callee, "|"); i >= 0 {
		callee, onlyPkg = callee[:i], callee[i+1:]
	}
	for fn := range ssautil.AllFunctions(e.Prog) {
		if onlyPkg != "" {
			p := fn.Pkg
			if p == nil && fn.Parent() != nil {
				p = fn.Parent().Pkg
			}
			if p == nil || p.Pkg.Path() != onlyPkg {
				continue
			}
		}
		if fn.Pkg == nil || !strings.HasPrefix(fn.Pkg.Pkg.Path(), "github.com/energomonitor/bisquitt") {
			if fn.Parent() == nil || fn.Parent().Pkg == nil || !strings.HasPrefix(fn.Parent().Pkg.Pkg.Path(), "github.com/energomonitor/bisquitt") {
				continue
			}
		}
		name := fn.String()
		if strings.Contains(name, ".VH_") || isHarnessFn(fn) {
			continue
		}
		for _, b := range fn.Blocks {
			for _, in := range b.Instrs {
				ci, ok := in.(ssa.CallInstruction)
				if !ok {
					continue
				}
				cc := ci.Common()
				var target string
				if cc.IsInvoke() {
					target = "invoke " + cc.Method.FullName()
				} else if sf := cc.StaticCallee(); sf != nil {
					target = sf.String()
				}
				if target == callee && !seen[name] {
					seen[name] = true
					sites = append(sites, name)
					if !executed[name] {
						uncovered = append(uncovered, name)
					}
				}
			}
		}
	}
	sort.Strings(sites)
	sort.Strings(uncovered)
	return
}

func isHarnessFn(fn *ssa.Function) bool {
	for f := fn; f != nil; f = f.Parent() {
		n := f.Name()
		if strings.HasPrefix(n, "VH_") || (len(n) > 1 && n[0] == 'v' && n[1] >= 'A' && n[1] <= 'Z') {
			return true
		}
	}
	return false
}
