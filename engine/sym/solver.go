package sym

import (
	"bufio"
	"fmt"
	"io"
	"os"
	"os/exec"
	"sort"
	"strconv"
	"strings"
	"time"
)

var slowMs = func() int { n, _ := strconv.Atoi(os.Getenv("VSLOW")); return n }()

type Result int

const (
	Unsat Result = iota
	Sat
	Unknown
)

func (r Result) String() string { return [...]string{"unsat", "sat", "unknown"}[r] }

// Solver is one long-lived SMT solver process spoken to in SMT-LIB2 text.
type Solver struct {
	Name    string
	ctx     *Ctx
	cmd     *exec.Cmd
	in      io.WriteCloser
	out     *bufio.Reader
	defined map[int]bool
	stack   []*Term // assertions currently on the solver's stack, one push frame each
	seq     int
	// statistics
	Queries   int
	SatN      int
	UnsatN    int
	UnknownN  int
	Errors    []string
	Time      time.Duration
	TimeoutMs int
	Log       io.Writer // optional transcript
}

// SolverCmd gives the command line for a known back end.
func SolverCmd(name string, timeoutMs int) []string {
	switch name {
	case "z3":
		return []string{"z3", "-in", "-smt2"}
	case "z3-new":
		return []string{"z3-new", "-in", "-smt2"}
	case "cvc5":
		return []string{"cvc5", "--incremental", "--lang=smt2", "--produce-models", fmt.Sprintf("--tlimit-per=%d", timeoutMs)}
	}
	return nil
}

func NewSolver(ctx *Ctx, name string, timeoutMs int) (*Solver, error) {
	argv := SolverCmd(name, timeoutMs)
	if argv == nil {
		return nil, fmt.Errorf("unknown solver %q", name)
	}
	cmd := exec.Command(argv[0], argv[1:]...)
	in, err := cmd.StdinPipe()
	if err != nil {
		return nil, err
	}
	outp, err := cmd.StdoutPipe()
	if err != nil {
		return nil, err
	}
	cmd.Stderr = cmd.Stdout
	if err := cmd.Start(); err != nil {
		return nil, err
	}
	s := &Solver{Name: name, ctx: ctx, cmd: cmd, in: in, out: bufio.NewReaderSize(outp, 1<<16), defined: map[int]bool{}, TimeoutMs: timeoutMs}
	s.send("(set-option :global-declarations true)\n")
	if strings.HasPrefix(name, "z3") {
		s.send(fmt.Sprintf("(set-option :timeout %d)\n", timeoutMs))
		s.send("(set-option :produce-models true)\n")
	} else {
		s.send("(set-logic ALL)\n")
	}
	if lines := s.sync(); len(lines) > 0 {
		for _, l := range lines {
			if strings.Contains(l, "error") {
				s.Errors = append(s.Errors, l)
			}
		}
	}
	return s, nil
}

func (s *Solver) Close() {
	if s == nil || s.cmd == nil {
		return
	}
	s.in.Close()
	done := make(chan struct{})
	go func() { s.cmd.Wait(); close(done) }()
	select {
	case <-done:
	case <-time.After(2 * time.Second):
		s.cmd.Process.Kill()
	}
	s.cmd = nil
}

func (s *Solver) send(txt string) {
	if s.Log != nil {
		io.WriteString(s.Log, txt)
	}
	io.WriteString(s.in, txt)
}

// sync sends an echo marker and returns all output lines before it.
func (s *Solver) sync() []string {
	s.seq++
	marker := fmt.Sprintf("SYNC%d", s.seq)
	s.send(fmt.Sprintf("(echo \"%s\")\n", marker))
	var lines []string
	for {
		line, err := s.out.ReadString('\n')
		line = strings.TrimRight(line, "\r\n")
		if strings.Trim(line, "\"") == marker {
			return lines
		}
		if line != "" {
			lines = append(lines, line)
		}
		if err != nil {
			lines = append(lines, "(error \"solver died: "+err.Error()+"\")")
			return lines
		}
	}
}

// define emits declarations/definitions for t and everything below it.
func (s *Solver) define(t *Term, sb *strings.Builder) {
	if t.Op == OpConst || s.defined[t.ID] {
		return
	}
	// iterative post-order to avoid deep recursion on long chains
	type fr struct {
		t *Term
		i int
	}
	st := []fr{{t, 0}}
	for len(st) > 0 {
		f := &st[len(st)-1]
		if f.t.Op == OpConst || s.defined[f.t.ID] {
			st = st[:len(st)-1]
			continue
		}
		if f.i < f.t.N {
			a := f.t.A[f.i]
			f.i++
			if a.Op != OpConst && !s.defined[a.ID] {
				st = append(st, fr{a, 0})
			}
			continue
		}
		x := f.t
		if x.Op == OpVar {
			fmt.Fprintf(sb, "(declare-const %s %s)\n", VarSMT(x), sortName(x.W))
		} else {
			fmt.Fprintf(sb, "(define-fun g%d () %s %s)\n", x.ID, sortName(x.W), bodySMT(x))
		}
		s.defined[x.ID] = true
		st = st[:len(st)-1]
	}
}

// Check decides satisfiability of the conjunction of asserts. On Sat the
// model assigns every variable occurring in the asserts.
func (s *Solver) Check(asserts []*Term) (Result, Model) {
	t0 := time.Now()
	defer func() { s.Time += time.Since(t0) }()
	s.Queries++
	var sb strings.Builder
	varset := map[int]*Term{}
	for _, a := range asserts {
		if a.IsFalse() {
			s.UnsatN++
			return Unsat, nil
		}
		s.define(a, &sb)
		for _, v := range s.ctx.VarsOf(a) {
			varset[v.ID] = v
		}
	}
	// incremental: the solver's assertion stack mirrors the previous query; only
	// the frames that differ are popped and pushed (one frame per assertion)
	var eff []*Term
	for _, a := range asserts {
		if !a.IsTrue() {
			eff = append(eff, a)
		}
	}
	common := 0
	for common < len(s.stack) && common < len(eff) && s.stack[common] == eff[common] {
		common++
	}
	if n := len(s.stack) - common; n > 0 {
		fmt.Fprintf(&sb, "(pop %d)\n", n)
		s.stack = s.stack[:common]
	}
	for _, a := range eff[common:] {
		fmt.Fprintf(&sb, "(push 1)\n(assert %s)\n", refSMT(a))
		s.stack = append(s.stack, a)
	}
	sb.WriteString("(check-sat)\n")
	tq := time.Now()
	s.send(sb.String())
	lines := s.sync()
	if slowMs > 0 && time.Since(tq) > time.Duration(slowMs)*time.Millisecond && len(eff) > 0 {
		fmt.Fprintf(os.Stderr, "SLOW %v: %d asserts, %d new, last: %s\n", time.Since(tq), len(eff), len(eff)-common, show(eff[len(eff)-1], 5))
	}
	res := Unknown
	bad := false
	for _, l := range lines {
		switch strings.TrimSpace(l) {
		case "sat":
			res = Sat
		case "unsat":
			res = Unsat
		case "unknown", "timeout":
			res = Unknown
		default:
			if strings.Contains(l, "error") {
				bad = true
				s.Errors = append(s.Errors, l)
			}
		}
	}
	if bad {
		res = Unknown
	}
	var model Model
	if res == Sat {
		model = Model{}
		if len(varset) > 0 {
			vars := make([]*Term, 0, len(varset))
			for _, v := range varset {
				vars = append(vars, v)
			}
			sort.Slice(vars, func(i, j int) bool { return vars[i].ID < vars[j].ID })
			var q strings.Builder
			q.WriteString("(get-value (")
			for _, v := range vars {
				q.WriteString(VarSMT(v))
				q.WriteByte(' ')
			}
			q.WriteString("))\n")
			s.send(q.String())
			out := strings.Join(s.sync(), " ")
			if strings.Contains(out, "(error") {
				s.Errors = append(s.Errors, out)
				res = Unknown
			} else {
				vals := parseValues(out)
				for _, v := range vars {
					x, ok := vals[VarSMT(v)]
					if !ok {
						s.Errors = append(s.Errors, "missing value for "+VarSMT(v)+" in: "+out)
						res = Unknown
						break
					}
					model[v.Name] = x
				}
			}
		}
	}
	if bad {
		// resynchronise after an error: drop the whole stack
		if len(s.stack) > 0 {
			s.send(fmt.Sprintf("(pop %d)\n", len(s.stack)))
			s.stack = nil
		}
	}
	switch res {
	case Sat:
		s.SatN++
	case Unsat:
		s.UnsatN++
	default:
		s.UnknownN++
	}
	return res, model
}

// parseValues parses "((v1 #x00) (v2 true) (v3 (_ bv5 8)))".
func parseValues(s string) map[string]uint64 {
	out := map[string]uint64{}
	toks := tokenize(s)
	// find pattern: "(" name value ")" where value is atom or "(" "_" bvN W ")"
	for i := 0; i+2 < len(toks); i++ {
		if toks[i] != "(" {
			continue
		}
		name := toks[i+1]
		if name == "(" || name == ")" || !(strings.HasPrefix(name, "v")) {
			continue
		}
		if _, err := strconv.Atoi(name[1:]); err != nil {
			continue
		}
		v := toks[i+2]
		switch {
		case v == "true":
			out[name] = 1
		case v == "false":
			out[name] = 0
		case strings.HasPrefix(v, "#x"):
			x, _ := strconv.ParseUint(v[2:], 16, 64)
			out[name] = x
		case strings.HasPrefix(v, "#b"):
			x, _ := strconv.ParseUint(v[2:], 2, 64)
			out[name] = x
		case v == "(" && i+4 < len(toks) && toks[i+3] == "_" && strings.HasPrefix(toks[i+4], "bv"):
			x, _ := strconv.ParseUint(toks[i+4][2:], 10, 64)
			out[name] = x
		}
	}
	return out
}

func tokenize(s string) []string {
	var toks []string
	cur := strings.Builder{}
	flush := func() {
		if cur.Len() > 0 {
			toks = append(toks, cur.String())
			cur.Reset()
		}
	}
	for _, r := range s {
		switch r {
		case '(', ')':
			flush()
			toks = append(toks, string(r))
		case ' ', '\t', '\n', '\r':
			flush()
		default:
			cur.WriteRune(r)
		}
	}
	flush()
	return toks
}
