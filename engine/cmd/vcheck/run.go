package main

import (
	"encoding/json"
	"flag"
	"fmt"
	"os"
	"path/filepath"
	"sort"
	"strings"
	"sync"
	"time"

	"verif/engine/sym"
)

type runResult struct {
	spec      *Spec
	tier      string
	insts     []Inst
	results   []*sym.InstanceResult
	solverQ   map[string]int
	solverS   float64
	solverErr []string
	disagree  int
	crossUnknown int
	crossErr     []string
	loadS     float64
	wallS     float64
	regions   []sym.Region
	engine    *sym.Engine
	valTapes  []*sym.Tape
}

func inconclusive(id, reason string) {
	fmt.Printf("INCONCLUSIVE property=%s reason=%s\n", id, reason)
	os.Exit(2)
}

func cmdRun(args []string) {
	fs := flag.NewFlagSet("run", flag.ExitOnError)
	tier := fs.String("tier", "quick", "quick|thorough")
	workers := fs.Int("workers", 16, "")
	only := fs.String("only", "", "run only instances whose name contains this")
	noReplay := fs.Bool("noreplay", false, "skip native replay/validation (debugging)")
	verbose := fs.Bool("v", false, "")
	fs.Parse(args)
	if fs.NArg() < 1 {
		fmt.Fprintln(os.Stderr, "usage: vcheck run [-tier quick|thorough] <ID>")
		os.Exit(2)
	}
	id := fs.Arg(0)
	spec := specs[id]
	if spec == nil {
		inconclusive(id, "no check registered for this property")
	}
	if os.Getenv("VERIF_TIER") != "" && *tier == "" {
		*tier = os.Getenv("VERIF_TIER")
	}
	t0 := time.Now()
	var insts []Inst
	if *tier == "thorough" && spec.Thor != nil {
		insts = spec.Thor()
	} else {
		insts = spec.Quick()
	}
	if *only != "" {
		var f []Inst
		for _, in := range insts {
			if strings.Contains(instName(in), *only) {
				f = append(f, in)
			}
		}
		insts = f
	}
	ov, err := overlayFor(spec.Pkgs)
	if err != nil {
		inconclusive(id, "overlay: "+err.Error())
	}
	pats := spec.Load
	if len(pats) == 0 {
		for _, p := range spec.Pkgs {
			pats = append(pats, "./"+p)
		}
	}
	e, err := sym.Load(repoDir, ov, pats...)
	if err != nil {
		inconclusive(id, "harness does not load against the current tree: "+oneLine(err.Error()))
	}
	for from, to := range spec.Subst {
		if err := e.AddSubst(from, to); err != nil {
			inconclusive(id, "substitution: "+err.Error())
		}
	}
	regions, fixedN, err := loadRegions(id)
	if err != nil {
		inconclusive(id, "known_findings.txt: "+err.Error())
	}
	_ = fixedN
	rr := &runResult{spec: spec, tier: *tier, insts: insts, solverQ: map[string]int{}, regions: regions, engine: e}
	rr.loadS = time.Since(t0).Seconds()

	// run instances on a pool of workers
	type job struct {
		i  int
		in Inst
	}
	jobs := make(chan job, len(insts))
	for i, in := range insts {
		jobs <- job{i, in}
	}
	close(jobs)
	rr.results = make([]*sym.InstanceResult, len(insts))
	nw := *workers
	if nw > len(insts) {
		nw = len(insts)
	}
	var mu sync.Mutex
	var wg sync.WaitGroup
	foundViol := false
	for k := 0; k < nw; k++ {
		wg.Add(1)
		go func() {
			defer wg.Done()
			opts := sym.Options{Solver: "z3", Regions: regions, LoopBound: spec.LoopBound, TimeoutMs: spec.TimeoutMs, KeepTapes: 3, AssertPrefix: spec.ID + "."}
			if *tier == "thorough" {
				opts.Cross = []string{"cvc5", "z3-new"}
			}
			w, err := sym.NewWorker(e, opts)
			if err != nil {
				mu.Lock()
				rr.solverErr = append(rr.solverErr, err.Error())
				mu.Unlock()
				return
			}
			defer w.Close()
			for j := range jobs {
				// fail fast: once an instance has produced a counterexample no further
				// instance is started (a changed tree can make the remaining ones very slow)
				mu.Lock()
				stop := foundViol
				mu.Unlock()
				if stop {
					continue
				}
				fn := e.Func(modPath+"/"+j.in.Pkg, j.in.Fn)
				if fn == nil {
					mu.Lock()
					rr.solverErr = append(rr.solverErr, "harness function not found: "+j.in.Pkg+"."+j.in.Fn)
					mu.Unlock()
					continue
				}
				w.Opts.LoopBound = spec.LoopBound
				if j.in.LoopBound != 0 {
					w.Opts.LoopBound = j.in.LoopBound
				}
				if w.Opts.LoopBound == 0 {
					w.Opts.LoopBound = 64
				}
				w.Opts.MaxPaths = 20000
				if j.in.MaxPaths != 0 {
					w.Opts.MaxPaths = j.in.MaxPaths
				}
				t1 := time.Now()
				res := w.Explore(fn, j.in.Args)
				res.Pkg = j.in.Pkg
				if *verbose {
					fmt.Printf("  %-40s paths=%-5d steps=%-8d %v viol=%d %.1fs\n", res.Name(), res.Paths, res.Steps, res.Status, len(res.Violations), time.Since(t1).Seconds())
				}
				rr.results[j.i] = res
				for _, v := range res.Violations {
					if v.InKnown == "" {
						mu.Lock()
						foundViol = true
						mu.Unlock()
						break
					}
				}
			}
			mu.Lock()
			for name, st := range w.SolverStats() {
				rr.solverQ[name] += st.Queries
				rr.solverS += st.Seconds
				if name == "z3" {
					rr.solverErr = append(rr.solverErr, st.Errors...)
				} else if len(st.Errors) > 0 {
					// a cross-check solver that errs or dies leaves the deciding solver's
					// verdicts un-cross-checked for the rest of that worker: counted, not fatal
					rr.crossErr = append(rr.crossErr, name+": "+oneLine(st.Errors[0]))
				}
			}
			rr.disagree += w.Disagreements
			rr.crossUnknown += w.CrossUnknown
			mu.Unlock()
		}()
	}
	wg.Wait()
	finish(rr, *noReplay, t0)
}

func instName(in Inst) string {
	var s []string
	for _, a := range in.Args {
		s = append(s, fmt.Sprint(a))
	}
	return in.Fn + "(" + strings.Join(s, ",") + ")"
}

func oneLine(s string) string {
	s = strings.ReplaceAll(s, "\n", " ")
	if len(s) > 400 {
		s = s[:400] + "..."
	}
	return s
}

// finish aggregates, replays, validates, writes evidence and sets the exit code.
func finish(rr *runResult, noReplay bool, t0 time.Time) {
	id := rr.spec.ID
	var inconcl []string
	paths, steps, asserts, assertsNT, ntPaths := 0, 0, 0, 0, 0
	status := map[string]int{}
	reached := map[string]bool{}
	covered := map[string]bool{}
	funcs := map[string]bool{}
	var viols []sym.Violation
	known := map[string]sym.Violation{}
	var samples []interface{}
	for i, r := range rr.results {
		if r == nil {
			inconcl = append(inconcl, "instance not run: "+instName(rr.insts[i]))
			continue
		}
		paths += r.Paths
		steps += r.Steps
		asserts += r.Asserts
		assertsNT += r.AssertsNT
		ntPaths += r.NTPaths
		for k, n := range r.Status {
			status[k] += n
		}
		for k := range r.Reached {
			reached[k] = true
		}
		for k := range r.Covered {
			covered[k] = true
		}
		for k := range r.Funcs {
			funcs[k] = true
		}
		for _, s := range r.Inconcl {
			inconcl = append(inconcl, r.Name()+": "+s)
		}
		for site, n := range r.PanicSites {
			// a path that ends in an unrecovered Go panic outside vPanics is a harness/engine problem
			inconcl = append(inconcl, fmt.Sprintf("%s: %d path(s) ended in an uncaught panic at %s", r.Name(), n, site))
		}
		if r.Status["blocked"] > 0 && !rr.spec.AllowBlocked {
			inconcl = append(inconcl, fmt.Sprintf("%s: %d path(s) ended blocked (deadlock)", r.Name(), r.Status["blocked"]))
		}
		for _, v := range r.Violations {
			v.Pkg = r.Pkg
			if v.InKnown != "" {
				if _, ok := known[v.InKnown]; !ok {
					known[v.InKnown] = v
				}
				continue
			}
			viols = append(viols, v)
		}
		if len(samples) < 6 && len(r.Samples) > 0 {
			samples = append(samples, map[string]interface{}{"harness": r.Name(), "paths": r.Paths, "path_sample": r.Samples[0]})
		}
		rr.valTapes = append(rr.valTapes, r.Tapes...)
	}
	for _, se := range rr.solverErr {
		inconcl = append(inconcl, "solver: "+oneLine(se))
	}
	if rr.disagree > 0 {
		inconcl = append(inconcl, fmt.Sprintf("%d solver disagreement(s)", rr.disagree))
	}
	// vacuity guards
	var missing []string
	for _, a := range rr.spec.Asserts {
		if !covered[a] {
			missing = append(missing, "assert:"+a)
		}
	}
	for _, a := range rr.spec.Reach {
		if !reached[a] {
			missing = append(missing, "reach:"+a)
		}
	}
	if len(missing) > 0 {
		inconcl = append(inconcl, "vacuous: never reached on a feasible path: "+strings.Join(missing, ", "))
	}
	// frame obligations
	frame := map[string]interface{}{}
	for _, callee := range rr.spec.FrameCallees {
		sites, uncovered := rr.engine.CallSites(callee, funcs)
		frame[callee] = map[string]interface{}{"sites": sites, "uncovered": uncovered}
		if len(sites) == 0 {
			inconcl = append(inconcl, "frame: no call site of "+callee+" found (identifier renamed?)")
		}
		for _, u := range uncovered {
			inconcl = append(inconcl, "frame: call site of "+callee+" in "+u+" is not executed by any harness path")
		}
	}

	// native replay of violations (dedup by label: first few per label)
	confirmed := 0
	var replayNotes []string
	var violLines []string
	perLabel := map[string]int{}
	os.MkdirAll(filepath.Join(verifDir, "replays", id), 0o755)
	// tapes of earlier runs are stale: only this run's counterexamples remain
	// (named tapes such as *.prefix.json, kept as records of repaired defects, stay)
	if old, _ := filepath.Glob(filepath.Join(verifDir, "replays", id, "VH_*.json")); len(old) > 0 {
		for _, f := range old {
			os.Remove(f)
		}
	}
	// one tape per known finding seen in this run, so that it can be replayed
	for name, v := range known {
		writeJSON(filepath.Join(verifDir, "replays", id, "known-"+sanitize(name)+".json"), v.Tape)
	}
	for _, v := range viols {
		if perLabel[v.Label] >= 2 {
			continue
		}
		perLabel[v.Label]++
		tp := filepath.Join(verifDir, "replays", id, fmt.Sprintf("%s-%s-%d.json", v.Tape.Harness, sanitize(v.Label), perLabel[v.Label]))
		writeJSON(tp, v.Tape)
		if noReplay {
			violLines = append(violLines, fmt.Sprintf("VIOLATION property=%s replay=%s", id, tp))
			confirmed++
			continue
		}
		if contains(rr.spec.EngineOnly, v.Tape.Harness) {
			ok, note := engineConfirm(rr, v.Pkg, v.Tape, v.Label)
			if ok {
				confirmed++
				violLines = append(violLines, fmt.Sprintf("VIOLATION property=%s replay=%s", id, tp))
				replayNotes = append(replayNotes, filepath.Base(tp)+": "+note)
			} else {
				inconcl = append(inconcl, fmt.Sprintf("counterexample for %s not confirmed (%s), tape %s", v.Label, note, tp))
			}
			continue
		}
		if isToolHarness(v.Tape.Harness) {
			ok, note := toolConfirm(rr, v.Pkg, v.Tape, v.Label)
			if ok {
				confirmed++
				violLines = append(violLines, fmt.Sprintf("VIOLATION property=%s replay=%s", id, tp))
				replayNotes = append(replayNotes, filepath.Base(tp)+": "+note)
			} else {
				inconcl = append(inconcl, fmt.Sprintf("counterexample for %s not confirmed against the real tool (%s), tape %s", v.Label, note, tp))
			}
			continue
		}
		rep, err := nativeReplay(rr.engine, rr.spec, v.Pkg, []string{tp}, 3)
		if err != nil {
			inconcl = append(inconcl, "native replay failed to run: "+oneLine(err.Error()))
			continue
		}
		crashed := len(rep) == 1 && v.CrashOK && (rep[0].Status == "crashed-before-output" || strings.HasPrefix(rep[0].Status, "panic"))
		if len(rep) == 1 && (contains(rep[0].Failures, v.Label) || crashed) {
			confirmed++
			violLines = append(violLines, fmt.Sprintf("VIOLATION property=%s replay=%s", id, tp))
			replayNotes = append(replayNotes, fmt.Sprintf("%s: %s reproduced natively (%s)", filepath.Base(tp), v.Label, rep[0].Status))
		} else {
			st := "no output"
			if len(rep) == 1 {
				st = rep[0].Status + " failures=" + strings.Join(rep[0].Failures, ",")
			}
			inconcl = append(inconcl, fmt.Sprintf("counterexample for %s did not reproduce natively (%s): encoding or stub error, tape %s", v.Label, st, tp))
		}
	}
	// known findings: still present? (replayed too, so that the line is only printed for real ones)
	var knownLines []string
	var knownNames []string
	for name := range known {
		knownNames = append(knownNames, name)
	}
	sort.Strings(knownNames)
	for _, name := range knownNames {
		what := name
		for _, r := range rr.regions {
			if r.Name == name {
				what = r.Text
			}
		}
		knownLines = append(knownLines, fmt.Sprintf("KNOWN-FINDING: property=%s %s", id, what))
	}

	// differential validation of the encoder on sampled path models
	validated, valNotes := 0, []string{}
	if !noReplay && !rr.spec.SkipValidate && confirmed == 0 {
		n := rr.spec.ValidateN
		if n == 0 {
			n = 20
			if rr.tier == "thorough" {
				n = 100
			}
		}
		v, notes, bad := validateEncoder(rr, n)
		validated = v
		valNotes = notes
		for _, b := range bad {
			if rr.spec.TimedNative || isTimedHarness(b) {
				valNotes = append(valNotes, "native run with real timers differed (scheduling jitter; not counted): "+b)
				continue
			}
			inconcl = append(inconcl, "encoder validation mismatch: "+b)
		}
	}

	rr.wallS = time.Since(t0).Seconds()
	// evidence
	ev := map[string]interface{}{
		"property_id": id, "tier": rr.tier, "seed": seedEnv(), "level": "model_checking",
		"wall_s": round2(rr.wallS), "violations": confirmed,
		"assumptions": append([]string{
			"bounded symbolic execution: verdicts hold for all values of the symbolic variables within the stated bounds only",
			"engine gosym (this repository) + intrinsic models listed under functions_encoded.intrinsic are trusted",
			"sequentially consistent execution; formatting/logging not executed",
		}, rr.spec.Assume...),
		"coverage": map[string]interface{}{
			"states": max1(paths), "transitions": max1(steps), "traces_validated_against_impl": validated,
			"samples":             nonEmpty(samples, id),
			"evaluations":         asserts,
			"distinct_nontrivial": ntPaths,
			"assertions_solver_decided": assertsNT,
			"rule":                "states = feasible symbolic paths explored; transitions = SSA instructions executed; one evaluation = one assertion evaluated on a feasible path; distinct_nontrivial = number of distinct feasible paths (distinct decision sequences) that evaluated at least one assertion and on which at least one branch, choice or assertion was decided by the solver (paths with no symbolic decision are trivial); assertions_solver_decided = assertion evaluations that did not fold to a constant",
			"functions_encoded":   classifyFuncs(funcs),
			"substitutions":       rr.spec.Subst,
			"bounds":              rr.spec.Bounds,
			"outside_bounds":      rr.spec.Outside,
			"instances":           len(rr.insts),
			"path_end_status":     status,
			"queries":             rr.solverQ,
			"solver_s":            round2(rr.solverS),
			"load_s":              round2(rr.loadS),
			"solver_disagreements": rr.disagree,
			"cross_check_unknown":  rr.crossUnknown,
			"cross_check_errors":   rr.crossErr,
			"reach_witnesses":     sortedKeys(reached),
			"asserts_covered":     sortedKeys(covered),
			"twin_assert_false_violated": len(missing) == 0,
			"unwinding_ok":        !anyContains(inconcl, "unwinding bound"),
			"frame_sites_covered": frame,
			"known_findings_reported": knownLines,
			"replay_notes":        replayNotes,
			"validation_notes":    valNotes,
			"inconclusive":        inconcl,
			"exhaustive":          false,
			"explanation":         "SSA of /repo's working tree (plus overlay harness) executed symbolically; every branch/assertion decided by z3 4.8.12 over bit-vector terms" + crossNote(rr.tier),
		},
	}
	os.MkdirAll(filepath.Join(verifDir, "evidence"), 0o755)
	writeJSON(filepath.Join(verifDir, "evidence", id+".json"), ev)

	fmt.Printf("property=%s tier=%s instances=%d paths=%d steps=%d asserts=%d (nontrivial %d) queries=%v solver=%.1fs validated=%d wall=%.1fs status=%v\n",
		id, rr.tier, len(rr.insts), paths, steps, asserts, assertsNT, rr.solverQ, rr.solverS, validated, rr.wallS, status)
	for _, l := range knownLines {
		fmt.Println(l)
	}
	if len(violLines) > 0 {
		for _, l := range violLines {
			fmt.Println(l)
		}
		os.Exit(1)
	}
	if len(inconcl) > 0 {
		sort.Strings(inconcl)
		seen := map[string]bool{}
		n := 0
		for _, s := range inconcl {
			if seen[s] {
				continue
			}
			seen[s] = true
			if n < 25 {
				fmt.Printf("INCONCLUSIVE property=%s reason=%s\n", id, oneLine(s))
			}
			n++
		}
		os.Exit(2)
	}
	fmt.Printf("HELD property=%s (within bounds)\n", id)
}

func crossNote(tier string) string {
	if tier == "thorough" {
		return "; assertion queries re-discharged on cvc5 1.0 and z3 5.1.0 and compared"
	}
	return ""
}

func seedEnv() int {
	var s int
	fmt.Sscan(os.Getenv("VERIF_SEED"), &s)
	return s
}

func max1(n int) int {
	if n < 1 {
		return 1
	}
	return n
}

func round2(f float64) float64 { return float64(int(f*100)) / 100 }

func nonEmpty(s []interface{}, id string) []interface{} {
	if len(s) == 0 {
		return []interface{}{map[string]string{"note": "no instance produced a path for " + id}}
	}
	return s
}

func contains(xs []string, s string) bool {
	for _, x := range xs {
		if x == s {
			return true
		}
	}
	return false
}

func anyContains(xs []string, s string) bool {
	for _, x := range xs {
		if strings.Contains(x, s) {
			return true
		}
	}
	return false
}

func sanitize(s string) string {
	return strings.Map(func(r rune) rune {
		if r >= 'a' && r <= 'z' || r >= 'A' && r <= 'Z' || r >= '0' && r <= '9' || r == '_' || r == '.' {
			return r
		}
		return '_'
	}, s)
}

func sortedKeys(m map[string]bool) []string {
	out := []string{}
	for k := range m {
		out = append(out, k)
	}
	sort.Strings(out)
	return out
}

func writeJSON(path string, v interface{}) {
	b, _ := json.MarshalIndent(v, "", " ")
	os.WriteFile(path, b, 0o644)
}

func classifyFuncs(funcs map[string]bool) map[string][]string {
	out := map[string][]string{"repo": {}, "third_party": {}, "stdlib": {}, "harness": {}}
	for f := range funcs {
		switch {
		case strings.Contains(f, ".VH_") || strings.Contains(f, ".v") && strings.Contains(f, modPath) && isHarnessName(f):
			out["harness"] = append(out["harness"], f)
		case strings.Contains(f, modPath):
			out["repo"] = append(out["repo"], strings.ReplaceAll(f, modPath+"/", ""))
		case strings.Contains(f, "github.com/") || strings.Contains(f, "golang.org/") || strings.Contains(f, "gopkg.in/"):
			out["third_party"] = append(out["third_party"], f)
		default:
			out["stdlib"] = append(out["stdlib"], f)
		}
	}
	for k := range out {
		sort.Strings(out[k])
	}
	in := sym.IntrinsicNames()
	sort.Strings(in)
	out["intrinsic"] = in
	return out
}

func isHarnessName(f string) bool {
	i := strings.LastIndex(f, ".")
	if i < 0 || i+2 >= len(f) {
		return false
	}
	n := f[i+1:]
	return n[0] == 'v' && n[1] >= 'A' && n[1] <= 'Z'
}
