package main

func c01Insts(plens []int64, nameLens []int64) []Inst {
	var out []Inst
	for _, pl := range plens {
		out = append(out, inst("gateway", "VH_C01_publish", pl, 2, 1, 1, 1))
	}
	for _, nl := range nameLens {
		out = append(out, inst("gateway", "VH_C01_publish", 1, nl, 2, 2, 2))
	}
	return out
}

func init() {
	reg(&Spec{
		ID:      "C01",
		Pkgs:    []string{"gateway"},
		Quick:   func() []Inst { return c01Insts(cat(rng(0, 3), []int64{8, 248, 249, 250, 251, 7168}), []int64{1, 3}) },
		Thor:    func() []Inst { return c01Insts(cat(rng(0, 64), rng(245, 258), []int64{1024, 7168}), []int64{0, 1, 2, 3, 4}) },
		Asserts: []string{"C01.unknown_not_forwarded", "C01.exactly_one", "C01.is_publish", "C01.payload", "C01.flags", "C01.qos", "C01.msgid", "C01.topic", "C01.registry_intact"},
		Reach:   []string{"C01.denotes_nothing", "C01.accepted", "C01.refused"},
		Bounds: map[string]string{
			"step":     "one handleMqttSn(PUBLISH) from an arbitrary pre-state: client state in {disconnected, active, asleep, awake}, auth on/off, every PUBLISH field symbolic (DUP, QoS 0..3, retain, topic-ID type 0..3, topic ID, message ID, every payload byte)",
			"payload":  "quick 0..3, 8, 248..251 (1-octet/3-octet boundary), 7168 bytes; thorough 0..64, 245..258, 1024, 7168",
			"registry": "up to 2 registered + 2 client-specific + 2 '*' predefined entries, IDs symbolic uint16, names symbolic strings of 1..3 bytes (thorough 0..4); client ID one symbolic byte",
			"histories": "covered by the arbitrary registry pre-state plus the registry-stability assertion (no step removes or renames a registration)",
		},
		Outside: []string{"registries larger than the bound", "payloads above MaxPayloadLength"},
	})
}
