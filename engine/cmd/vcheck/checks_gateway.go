package main

func c01Insts(plens []int64, nameLens []int64) []Inst {
	var out []Inst
	for _, pl := range plens {
		out = append(out, inst("gateway", "VH_C01_publish", pl, 2, 1, 1, 1))
	}
	for _, nl := range nameLens {
		out = append(out, inst("gateway", "VH_C01_publish", 1, nl, 2, 2, 2))
	}
	out = append(out, gwToldInsts()...)
	return out
}

func init() {
	reg(&Spec{
		ID:      "C01",
		Pkgs:    []string{"gateway", "util"},
		Quick:   func() []Inst { return c01Insts(cat(rng(0, 3), []int64{8, 248, 249, 250, 251, 7168}), []int64{1, 3}) },
		Thor:    func() []Inst { return c01Insts(cat(rng(0, 64), rng(245, 258), []int64{1024, 7168}), []int64{0, 1, 2, 3, 4}) },
		Asserts: []string{"C01.unknown_not_forwarded", "C01.exactly_one", "C01.is_publish", "C01.payload", "C01.flags", "C01.qos", "C01.msgid", "C01.topic", "C01.registry_intact", "C01.told_id_stable"},
		Reach:   []string{"C01.denotes_nothing", "C01.accepted", "C01.refused"},
		Bounds: map[string]string{
			"step":     "one handleMqttSn(PUBLISH) from an arbitrary pre-state: client state in {disconnected, active, asleep, awake}, auth on/off, every PUBLISH field symbolic (DUP, QoS 0..3, retain, topic-ID type 0..3, topic ID, message ID, every payload byte)",
			"payload":  "quick 0..3, 8, 248..251 (1-octet/3-octet boundary), 7168 bytes; thorough 0..64, 245..258, 1024, 7168",
			"registry": "up to 2 registered + 2 client-specific + 2 '*' predefined entries, IDs symbolic uint16, names symbolic strings of 1..3 bytes (thorough 0..4); client ID one symbolic byte",
			"histories": "covered by the arbitrary registry pre-state plus the registry-stability assertion (no step removes or renames a registration)",
		},
		Outside: []string{"registries larger than the bound", "payloads above MaxPayloadLength"},
	})
}

// ---------------------------------------------------------------------------
// the gateway "world" harness: event catalogue

type gwEv struct{ kind, arg int64 }

const evMQ = 0x100
const evTIMER = 0x200

func gwSNEvents(full bool) []gwEv {
	tab := []struct {
		typ  int64
		lens []int64
	}{
		{0x00, []int64{3}}, {0x01, []int64{1}}, {0x02, []int64{1, 2}},
		{0x03, []int64{2, 3, 7, 9, 10, 11}}, {0x04, []int64{5, 6}}, {0x05, []int64{1}}, {0x06, []int64{0}},
		{0x07, []int64{0, 2, 3}}, {0x08, []int64{0}}, {0x09, []int64{0, 1, 2}}, {0x0A, []int64{5, 6, 7}}, {0x0B, []int64{5}},
		{0x0C, []int64{5, 6, 7}}, {0x0D, []int64{5}}, {0x0E, []int64{2}}, {0x0F, []int64{2}}, {0x10, []int64{2}},
		{0x12, []int64{4, 5, 6}}, {0x13, []int64{6}}, {0x14, []int64{4, 5, 6}}, {0x15, []int64{2}}, {0x16, []int64{0, 1}},
		{0x17, []int64{0}}, {0x18, []int64{0, 2}}, {0x1A, []int64{0, 2}}, {0x1B, []int64{1}}, {0x1C, []int64{0, 1}}, {0x1D, []int64{1}},
	}
	var out []gwEv
	for _, t := range tab {
		lens := t.lens
		if !full && len(lens) > 2 {
			lens = []int64{lens[0], lens[len(lens)-1]}
		}
		for _, n := range lens {
			out = append(out, gwEv{t.typ, n})
		}
	}
	return out
}

func gwMQEvents(all bool) []gwEv {
	out := []gwEv{{evMQ + 2, 0}, {evMQ + 3, 1}, {evMQ + 3, 2}, {evMQ + 3, 3}, {evMQ + 4, 0}, {evMQ + 5, 0}, {evMQ + 6, 0}, {evMQ + 7, 0},
		{evMQ + 9, 0}, {evMQ + 9, 1}, {evMQ + 9, 2}, {evMQ + 11, 0}, {evMQ + 13, 0}}
	if all {
		out = append(out, gwEv{evMQ + 1, 0}, gwEv{evMQ + 8, 0}, gwEv{evMQ + 10, 0}, gwEv{evMQ + 12, 0}, gwEv{evMQ + 14, 0})
	}
	return out
}

func gwAllEvents(full bool) []gwEv {
	return append(append(gwSNEvents(full), gwMQEvents(true)...), gwEv{evTIMER, 0})
}

// setup events: the ones that create transactions / change state
func gwSetupEvents() []gwEv {
	return []gwEv{{0x04, 5}, {0x03, 10}, {0x07, 2}, {0x09, 1}, {0x0A, 5}, {0x0C, 6}, {0x12, 4}, {0x12, 5}, {0x18, 2}, {0x18, 0}, {0x16, 0},
		{evMQ + 3, 1}, {evMQ + 3, 2}, {evMQ + 3, 3}, {evMQ + 2, 0}, {evTIMER, 0}}
}

// gwOnePerKind keeps, unless all is set, only the largest variant of each event kind.
func gwOnePerKind(evs []gwEv, all bool) []gwEv {
	if all {
		return evs
	}
	last := map[int64]gwEv{}
	var order []int64
	for _, e := range evs {
		if _, ok := last[e.kind]; !ok {
			order = append(order, e.kind)
		}
		if e.kind == evMQ+9 && e.arg != 1 {
			if _, ok := last[e.kind]; ok {
				continue // SUBACK: the variant with exactly one return code is the meaningful one
			}
		}
		last[e.kind] = e
	}
	var out []gwEv
	for _, k := range order {
		out = append(out, last[k])
	}
	return out
}

// gwToldInsts: a topic the client registered, then a SUBSCRIBE / broker PUBLISH /
// REGISTER on a (possibly equal) name, then every broker answer.
func gwToldInsts() []Inst {
	var out []Inst
	for _, c := range [][2]gwEv{
		{{0x12, 4}, {evMQ + 9, 1}}, {{0x12, 4}, {evTIMER, 0}}, {{0x0A, 5}, {evMQ + 9, 1}}, {{0x0A, 5}, {0x0A, 5}},
		{{evMQ + 3, 1}, {0x0B, 5}}, {{evMQ + 3, 1}, {evTIMER, 0}},
	} {
		out = append(out, inst("gateway", "VH_GW_setup3", 18, c[0].kind, c[0].arg, c[1].kind, c[1].arg))
	}
	return out
}

// gwStepInsts: every event from an arbitrary pre-state, plus the set-ups that register topics.
func gwStepInsts() []Inst {
	var out []Inst
	for _, e := range gwAllEvents(false) {
		out = append(out, inst("gateway", "VH_GW_step", e.kind, e.arg, 1))
	}
	for _, su := range []int64{6, 7, 15, 18} {
		for _, b := range gwOnePerKind(gwAllEvents(false), false) {
			out = append(out, inst("gateway", "VH_GW_setup2", su, b.kind, b.arg))
		}
	}
	out = append(out, gwToldInsts()...)
	return out
}

func gwInsts(tier string) []Inst {
	full := tier == "thorough"
	var out []Inst
	out = append(out, inst("gateway", "VH_GW_init"))
	for _, e := range gwAllEvents(full) {
		out = append(out, inst("gateway", "VH_GW_step", e.kind, e.arg, 1))
		if full {
			out = append(out, inst("gateway", "VH_GW_step", e.kind, e.arg, 2))
		}
	}
	// a set-up (transaction in progress, sleeping client, ...) followed by every event
	for su := int64(1); su <= 18; su++ {
		for _, b := range gwOnePerKind(gwAllEvents(full), full) {
			out = append(out, inst("gateway", "VH_GW_setup2", su, b.kind, b.arg))
		}
	}
	if full {
		// set-up, then a timer expiry or a set-up event, then every event
		for su := int64(1); su <= 18; su++ {
			for _, b := range gwAllEvents(false) {
				out = append(out, inst("gateway", "VH_GW_setup3", su, evTIMER, 0, b.kind, b.arg))
			}
		}
	}
	return out
}

var gwBounds = map[string]string{
	"events":        "client datagrams of all 28 MQTT-SN types (body lengths from the type's minimum up to minimum+3, AUTH up to PLAIN + 4 data bytes) decoded by the real decoder from symbolic bytes; broker packets CONNACK, PUBLISH (topic 1..3 bytes, QoS 0..3), PUBACK, PUBREC, PUBREL, PUBCOMP, SUBACK (0..2 return codes), UNSUBACK, PINGRESP and the five client-only types, all fields symbolic; expiry of the earliest pending timer",
	"configuration": "auth on/off, gateway broker credentials absent/present (1-byte user and password), predefined topics: 1 entry for one client + 1 '*' entry, IDs symbolic, names 2 symbolic bytes (valid topic names)",
	"one step":      "every event from an arbitrary pre-state: client state in {disconnected, active, asleep, awake}, keep-alive symbolic, registry of 1 (thorough: 1 and 2) entries with symbolic IDs/names, client ID equal to or different from the configured one",
	"histories":     "17 set-ups (real handler steps: connect exchange in each phase with/without will/auth, client PUBLISH QoS 1 pending, SUBSCRIBE pending, broker PUBLISH awaiting REGACK / PUBACK / PUBREC / PUBREL / PUBCOMP, asleep, asleep with buffered traffic, awake, connected through a real exchange, fresh session) x every event; thorough: set-up, timer expiry, every event",
	"broker model":  "conforming: CONNACK only as the answer to a CONNECT, nothing else before it accepted",
}

var gwOutside = []string{"histories longer than the bound that are not covered by the arbitrary pre-state (transactions older than one event)", "paho's decoding of broker bytes (broker input is taken at ControlPacket level)", "String()/logging"}

func init() {
	reg(&Spec{
		ID: "C14", Pkgs: []string{"gateway", "util"}, LoopBound: 2000,
		Quick: func() []Inst { return append(gwInsts("quick"), c13Insts(false)...) },
		Thor:  func() []Inst { return append(gwInsts("thorough"), c13Insts(true)...) },
		Subst:        map[string]string{"(*net.Dialer).DialContext": "github.com/energomonitor/bisquitt/gateway.vDialFail"},
		Asserts:      []string{"C14.only_plain_disconnect", "C14.plain_disconnect_forwarded", "C14.no_mqtt_disconnect_on_other_termination"},
		Reach:        []string{"C14.disconnect_sent", "C14.other_termination"},
		Bounds:       gwBounds, Outside: gwOutside,
		FrameCallees: []string{"(*github.com/energomonitor/bisquitt/gateway.handler1).mqttSend"},
	})
	reg(&Spec{
		ID: "C24", Pkgs: []string{"gateway", "util"},
		Quick: func() []Inst { return gwInsts("quick") }, Thor: func() []Inst { return gwInsts("thorough") },
		Asserts:      []string{"C24.valid_packet", "C24.connect_protocol", "C24.will_flag_iff_topic", "C24.publish_topic_nonempty", "C24.publish_topic_no_wildcard", "C24.filter_nonempty", "C24.subscribe_qos", "C24.registry_names_valid"},
		Bounds:       gwBounds, Outside: gwOutside,
		FrameCallees: []string{"(*github.com/energomonitor/bisquitt/gateway.handler1).mqttSend"},
	})
	reg(&Spec{
		ID: "C07", Pkgs: []string{"gateway", "util"},
		Quick: func() []Inst { return gwInsts("quick") }, Thor: func() []Inst { return gwInsts("thorough") },
		Asserts:      []string{"C07.init", "C07.inv", "C07.connack_only_after_accept", "C07.nothing_relayed_before_accept", "C07.illegal_closes_session"},
		Reach:        []string{"C07.connected_state", "C07.connack_accepted", "C07.illegal_before_connect"},
		Bounds:       gwBounds, Outside: gwOutside,
		FrameCallees: []string{"(*github.com/energomonitor/bisquitt/gateway.handler1).setState", "(*github.com/energomonitor/bisquitt/util.ClientState).Set|github.com/energomonitor/bisquitt/gateway"},
	})
}

func c03Insts(full bool) []Inst {
	var out []Inst
	lens := []int64{4, 5, 6}
	if full {
		lens = []int64{4, 5, 6, 7, 8}
	}
	for _, n := range lens {
		out = append(out, inst("gateway", "VH_C03_subscribe", n, 2), inst("gateway", "VH_C03_unsubscribe", n, 2))
		if full {
			out = append(out, inst("gateway", "VH_C03_subscribe", n, 3), inst("gateway", "VH_C03_unsubscribe", n, 1))
		}
	}
	for k := int64(0); k <= 6; k++ {
		out = append(out, inst("gateway", "VH_C03_passthrough", k))
	}
	return out
}

func init() {
	reg(&Spec{
		ID: "C03", Pkgs: []string{"gateway", "util"},
		Quick: func() []Inst { return c03Insts(false) }, Thor: func() []Inst { return c03Insts(true) },
		Asserts: []string{"C03.sub_accepted", "C03.sub_one_to_one", "C03.sub_is_subscribe", "C03.sub_msgid", "C03.sub_filter", "C03.sub_qos", "C03.sub_registered",
			"C03.suback_one_to_one", "C03.suback_is_suback", "C03.suback_msgid", "C03.suback_accepted_iff_granted", "C03.suback_granted_qos", "C03.suback_topicid",
			"C03.unsub_one_to_one", "C03.unsub_is_unsubscribe", "C03.unsub_fields", "C03.pubrel_one_to_one", "C03.pubrel_fields", "C03.pingreq_one_to_one", "C03.pingreq_fields",
			"C03.disconnect_one_to_one", "C03.disconnect_fields", "C03.ack_one_to_one", "C03.ack_fields", "C03.pingresp_one_to_one", "C03.pingresp_fields"},
		Reach: []string{"C03.suback_granted", "C03.sub_unknown_predefined"},
		Bounds: map[string]string{
			"subscribe":   "SUBSCRIBE decoded from symbolic bytes (all topic-ID types, DUP, requested QoS 0..2, message ID; topic names of 1..3 bytes, thorough 1..5) followed by the broker SUBACK with return code in {0,1,2,0x80} (symbolic); registry 1 entry + predefined 1+1 entries with symbolic IDs/names; client active",
			"passthrough": "UNSUBSCRIBE (all topic-ID types), PUBREL, PINGREQ, plain DISCONNECT from the client; PUBREC, PUBCOMP, UNSUBACK, PINGRESP from the broker; message IDs symbolic",
		},
		Outside: []string{"SUBSCRIBE with QoS 3 (refused, see C24)", "sleeping-client cases of PINGREQ/PINGRESP (C11, C12)"},
	})
}

func c04Insts(full bool) []Inst {
	out := []Inst{inst("gateway", "VH_C04_init")}
	cfgs := [][2]int64{{0, 0}, {1, 1}, {2, 0}, {0, 2}}
	if full {
		cfgs = append(cfgs, [2]int64{2, 2}, [2]int64{3, 1})
	}
	for _, c := range cfgs {
		out = append(out, inst("gateway", "VH_C04_fresh_step", c[0], c[1]))
	}
	for via := int64(0); via <= 3; via++ {
		out = append(out, inst("gateway", "VH_C04_exhausted", 1, 1, via))
	}
	return out
}

func init() {
	reg(&Spec{
		ID: "C04", Pkgs: []string{"gateway", "util"},
		Quick: func() []Inst { return append(c04Insts(false), gwStepInsts()...) },
		Thor:  func() []Inst { return append(c04Insts(true), gwInsts("quick")...) },
		Asserts: []string{"C04.init_fresh", "C04.refusal_means_exhausted", "C04.id_in_range_and_new", "C04.id_not_predefined", "C04.post_state", "C04.last_id",
			"C04.exhausted_refuses", "C04.no_reassignment", "C04.exhausted_fixed_point", "C04.told_id_stable", "C04.handed_out_id_valid"},
		Reach: []string{"C04.fresh_refused", "C04.fresh_allocated", "C04.id_handed_out"},
		Bounds: map[string]string{
			"induction": "ID counter state Fresh(n) with n symbolic over 1..0xFFFE (covers every session history, however long); predefined topics 0..2 client-specific + 0..2 '*' entries with symbolic IDs (thorough up to 3+1 / 2+2); the wrapped state is reached through the real code and three consecutive refusals are checked up to the fixed point of the counter/handler state",
			"handed-out IDs": "every REGACK / SUBACK / REGISTER written in any step of the gateway world harness (quick: every event from an arbitrary pre-state + the three set-ups that register topics x every event; thorough: all set-ups) carries an ID in 1..0xFFFE that is not predefined for the client, and no step removes or renames an existing registration",
		},
		Outside: []string{"more predefined entries than the bound (the skip loop is unwound once per entry)"},
	})
}

func c0809Insts(k int64) []Inst {
	var out []Inst
	for first := int64(0); first <= 6; first++ {
		for second := int64(0); second <= 8; second++ {
			out = append(out, Inst{Pkg: "gateway", Fn: "VH_C08_hist", Args: []int64{k, first, second}, MaxPaths: 200000})
		}
	}
	// the same exchange through the real receive loop (datagram by datagram)
	out = append(out, inst("gateway", "VH_C08_session", 0), inst("gateway", "VH_C08_session", 1))
	return out
}

var c0809Bounds = map[string]string{
	"histories":     "fresh session, k events (quick k = 3, thorough k = 4): first event fixed per instance, the others chosen symbolically among CONNECT (will flag, clean session, keep-alive incl. 0, client ID symbolic), AUTH with a 5-byte method (PLAIN reachable) and 3 or 4 symbolic data bytes, AUTH with a 1-byte method, WILLTOPIC (2 bytes / empty), WILLMSG (1 byte / empty), broker CONNACK (return code symbolic) when a CONNECT is pending",
	"configuration": "auth on/off, gateway credentials absent/present (1 symbolic byte each)",
	"session":       "CONNECT (with / without will), AUTH PLAIN (2 user + 3 password bytes symbolic), WILLTOPIC, WILLMSG (20 symbolic bytes) through the real run() and snReceiveLoop: the MQTT CONNECT carries exactly those credentials and that will",
	"oracle":        "reference state machine of the connect exchange + reference SASL PLAIN splitter + independent MQTT CONNECT parser",
}

func init() {
	reg(&Spec{
		ID: "C08", Pkgs: []string{"gateway", "util"},
		Quick: func() []Inst { return c0809Insts(3) }, Thor: func() []Inst { return c0809Insts(4) },
		Asserts: []string{"C08.unknown_method_not_supported", "C08.connect_needs_plain_auth", "C08.connect_carries_auth_credentials", "C08.connect_carries_gateway_credentials"},
		Reach:   []string{"C08.unknown_method", "C08.session_connect_sent"},
		Bounds:  c0809Bounds, Outside: []string{"longer histories", "AUTH data longer than 4 bytes"},
	})
	reg(&Spec{
		ID: "C09", Pkgs: []string{"gateway", "util"},
		Quick: func() []Inst { return c0809Insts(3) }, Thor: func() []Inst { return c0809Insts(4) },
		Asserts: []string{"C09.zero_keepalive_not_supported", "C09.willtopicreq_only_with_will_flag", "C09.willtopicreq_after_auth", "C09.will_flag_gets_willtopicreq",
			"C09.willmsgreq_only_after_willtopic", "C09.willtopic_gets_willmsgreq", "C09.at_most_one_connect", "C09.will_connect_only_after_willmsg", "C09.connect_carries_will",
			"C09.no_will_without_flag", "C09.willmsg_gets_connect", "C09.no_will_requests_without_flag", "C09.connack_mirrors_broker", "C09.connect_needs_client_connect"},
		Reach:  []string{"C09.zero_keepalive", "C09.willtopicreq", "C09.willmsgreq", "C09.connect_sent", "C09.broker_connack"},
		Bounds: c0809Bounds, Outside: []string{"longer histories"},
	})
}

func init() {
	reg(&Spec{
		ID: "C10", Pkgs: []string{"gateway", "util"}, TimedNative: true, LoopBound: 1000, ValidateN: 5,
		Quick: func() []Inst {
			var out []Inst
			for p := int64(0); p <= 7; p++ {
				out = append(out, inst("gateway", "VH_C10_halfopen", p))
			}
			return append(out, inst("gateway", "VH_C10_answered", 0), inst("gateway", "VH_C10_answered", 3))
		},
		Asserts: []string{"C10.session_ends", "C10.no_panic", "C10.ends_within_timeout_plus_poll", "C10.broker_connection_closed", "C10.accepted_session_survives"},
		Reach:   []string{"C10.reaped", "C10.survives"},
		Bounds: map[string]string{
			"session":  "the real handler1.run with mockupDialFunc, real snReceiveLoop / mqttReceiveLoop, real errgroup and context packages, channel-backed connections honouring read deadlines; virtual time",
			"prefixes": "CONNECT; CONNECT(will); +WILLTOPIC; +WILLMSG; auth: CONNECT; auth: CONNECT+AUTH; CONNECT, 1 s, CONNECT; keep-alive, clean-session and will QoS symbolic; then silence of client and broker for 6 s of virtual time",
			"control":  "a session whose CONNECT the broker accepts after 0 s / 3 s survives the next 7 s",
		},
		Outside: []string{"real-time slack of the Go scheduler and of socket deadlines (bounds are in virtual time)", "transports (pion/udp, DTLS)"},
	})
}

func c13Insts(full bool) []Inst {
	var out []Inst
	for st := int64(0); st <= 4; st++ {
		for cause := int64(0); cause <= 5; cause++ {
			if cause == 4 && st != 0 {
				continue
			}
			if cause == 1 && st == 0 {
				continue // plain DISCONNECT before CONNECT: see C07's known finding
			}
			out = append(out, inst("gateway", "VH_C13_terminate", st, cause, 0))
			if (st == 1 || st == 2 || st == 3) && (full || cause <= 2) {
				out = append(out, inst("gateway", "VH_C13_terminate", st, cause, 1))
			}
		}
	}
	out = append(out, inst("gateway", "VH_C13_dialfail"))
	return out
}

var c13Bounds = map[string]string{
	"session": "the real handler1.run with real receive loops, errgroup, context; channel-backed connections with read deadlines; virtual time",
	"states":  "disconnected, connecting (CONNECT forwarded, no CONNACK yet), active, asleep, awake - each reached through a real exchange (keep-alive 10 s, sleep 30 s)",
	"causes":  "gateway shutdown, client plain DISCONNECT, broker closes the connection, undecodable datagram, illegal packet before CONNECT, undecodable broker bytes; with and without a broker PUBLISH QoS 1 in flight; dial failure (net.Dialer.DialContext substituted by a failing stub)",
}

func init() {
	reg(&Spec{
		ID: "C13", Pkgs: []string{"gateway", "util"}, TimedNative: true, LoopBound: 2000, ValidateN: 6,
		Quick: func() []Inst { return c13Insts(false) }, Thor: func() []Inst { return c13Insts(true) },
		Subst:   map[string]string{"(*net.Dialer).DialContext": "github.com/energomonitor/bisquitt/gateway.vDialFail"},
		Asserts: []string{"C13.session_ends", "C13.no_panic", "C13.ends_within_poll_interval", "C13.broker_connection_closed_once", "C13.own_disconnect_answered_once", "C13.connected_client_gets_disconnect", "C13.no_disconnect_for_sleeping_or_unconnected", "C13.no_goroutine_left", "C13.dialfail_run_returns", "C13.dialfail_connack"},
		Reach:   []string{"C13.ended"},
		Bounds:  c13Bounds,
		Outside: []string{"real-time slack of scheduler and sockets (bounds in virtual time)", "histories longer than the exchanges used to reach each state", "transports"},
	})
}

func c15Insts(full bool) []Inst {
	var out []Inst
	poss := []int64{3}
	if full {
		poss = []int64{0, 2, 3, 5}
	}
	for _, pos := range poss {
		for _, ev := range gwSNEvents(full) {
			out = append(out, inst("gateway", "VH_C15_isolation", ev.kind, ev.arg, 0, pos, 0))
		}
		for _, m := range []int64{2, 3, 4, 5, 6, 7, 9, 11, 13} {
			out = append(out, inst("gateway", "VH_C15_isolation", -1, 0, m, pos, 0))
		}
	}
	// B connecting with a will (pending CONNECT in memory) while A runs a connect exchange of its own
	wposs := []int64{2}
	if full {
		wposs = []int64{1, 2, 3, 4}
	}
	for _, pos := range wposs {
		for _, ev := range gwSNEvents(full) {
			if ev.kind == 0x03 || ev.kind == 0x07 || ev.kind == 0x09 || ev.kind == 0x04 {
				out = append(out, inst("gateway", "VH_C15_isolation", ev.kind, ev.arg, 0, pos, 3))
			}
		}
	}
	out = append(out, inst("gateway", "VH_C15_accept", 2))
	if full {
		out = append(out, inst("gateway", "VH_C15_accept", 3))
	}
	return out
}

func init() {
	reg(&Spec{
		ID: "C15", Pkgs: []string{"gateway", "util"}, LoopBound: 400, ValidateN: 12, EngineOnly: []string{"VH_C15_accept"},
		Subst: map[string]string{
			"github.com/energomonitor/bisquitt/gateway.newUDPListener": "github.com/energomonitor/bisquitt/gateway.vStubListen",
			"net.ResolveUDPAddr":        "github.com/energomonitor/bisquitt/gateway.vStubResolveUDP",
			"(*net.Dialer).DialContext": "github.com/energomonitor/bisquitt/gateway.vDialFresh",
		},
		Quick:   func() []Inst { return c15Insts(false) },
		Thor:    func() []Inst { return c15Insts(true) },
		Asserts: []string{"C15.b_unaffected", "C15.own_broker_connection", "C15.others_broker_connection_untouched", "C15.ended_session_closes_its_broker_connection", "C15.other_sessions_survive", "C15.reply_goes_to_its_own_client", "C15.request_goes_to_its_own_broker_connection", "C15.accept_loop_ends_on_shutdown"},
		Reach:   []string{"C15.a_acted", "C15.probe_done", "C15.all_connected", "C15.accept_done"},
		Bounds: map[string]string{
			"isolation": "differential non-interference: session B (client ID 'b'; CONNECT with symbolic keep-alive / clean flag, AUTH when enabled, CONNACK, REGISTER, PUBLISH on a symbolic predefined ID, SUBSCRIBE, broker PUBLISH; payload and password bytes symbolic) run once alone on private copies of the configuration and once sharing *handlerConfig and the PredefinedTopics map object with session A; A: arbitrary state, client ID (possibly 'b'), keep-alive and one registry entry, receives one client packet of every decodable MQTT-SN type (entirely symbolic body; malformed/illegal ones included) or one broker packet of every type with symbolic fields, then is terminated, before step 3 of B's history (thorough: steps 0, 2, 3, 5); auth on/off symbolic, gateway broker credentials one symbolic byte each; predefined topics for 'a', 'b' and '*'",
			"accept":    "the real ListenAndServe accept loop with a stub listener yielding 2 (thorough 3) connections: one handler, one run() and one broker connection per accepted connection, each broker connection carrying its own client's CONNECT; an undecodable datagram ends session 0 only; a broker CONNACK reaches its own client only; shutdown ends the loop",
		},
		Outside: []string{"'each MQTT-SN peer address gets its own session' is pion/udp's per-address demultiplexing and the kernel: not encoded (the stub listener hands out connections)", "truly concurrent execution of two sessions on the Go scheduler (the argument is non-interference through shared objects, not interleaving)", "DTLS listener"},
	})
}
