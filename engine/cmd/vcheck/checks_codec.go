package main

func init() {
	reg(&Spec{
		ID:      "C20",
		Pkgs:    []string{"packets1"},
		Quick:   func() []Inst { return []Inst{inst("packets1", "VH_C20_read")} },
		Thor:    func() []Inst { return []Inst{inst("packets1", "VH_C20_read")} },
		Asserts: []string{"C20.nopanic"},
		Reach:   []string{"C20.decoded", "C20.rejected"},
		Bounds: map[string]string{
			"datagram length": "symbolic n in [0, 8192] (transport maximum), every byte symbolic; bytes beyond n are zero as in the freshly made receive buffer",
			"entry point":     "packets1.ReadPacket with all 28 Unpack methods and packets.Header.Unpack",
		},
		Outside: []string{"String() methods and logging are not executed", "datagrams above 8192 bytes (the transports cannot deliver them)"},
	})
}

var snTypes = []int64{0x00, 0x01, 0x02, 0x03, 0x04, 0x05, 0x06, 0x07, 0x08, 0x09, 0x0A, 0x0B, 0x0C, 0x0D, 0x0E, 0x0F, 0x10,
	0x12, 0x13, 0x14, 0x15, 0x16, 0x17, 0x18, 0x1A, 0x1B, 0x1C, 0x1D}

var snVarTypes = map[int64]int64{0x02: 0, 0x03: 0, 0x04: 1, 0x07: 0, 0x09: 0, 0x0A: 1, 0x0C: 0, 0x12: 1, 0x14: 1, 0x16: 0, 0x1A: 0, 0x1C: 0}

func c21Insts(lens []int64) []Inst {
	var out []Inst
	for _, t := range snTypes {
		min, isVar := snVarTypes[t]
		if !isVar {
			out = append(out, inst("packets1", "VH_C21_roundtrip", t, 0))
			continue
		}
		for _, n := range lens {
			if n < min {
				continue
			}
			out = append(out, inst("packets1", "VH_C21_roundtrip", t, n))
		}
	}
	out = append(out, inst("packets1", "VH_C21_short_topic"), inst("packets1", "VH_C21_length_arith"),
		Inst{Pkg: "packets1", Fn: "VH_C21_header_bytes", Args: []int64{0, 300}, LoopBound: 400}, Inst{Pkg: "packets1", Fn: "VH_C21_header_bytes", Args: []int64{65300, 65531}, LoopBound: 400})
	return out
}

func init() {
	reg(&Spec{
		ID:   "C21",
		Pkgs: []string{"packets1"},
		Quick: func() []Inst {
			return c21Insts(cat(rng(0, 8), rng(245, 258), []int64{7168}))
		},
		Thor: func() []Inst {
			return c21Insts(cat(rng(0, 300), []int64{1024, 7168}))
		},
		Asserts: []string{"C21.pack_ok", "C21.length_form", "C21.decode_ok", "C21.roundtrip", "C21.short_dec_enc", "C21.short_enc_dec", "C21.arith_total", "C21.arith_var", "C21.arith_hdr", "C21.arith_unpack_eq", "C21.hdr_form"},
		Reach:   []string{"C21.short_form", "C21.long_form"},
		Bounds: map[string]string{
			"packet types":        "all 28; every flag, ID, code and content byte symbolic over its full legal range",
			"variable field size": "quick: 0..8, 245..258, 7168 bytes; thorough: every size 0..300, 1024, 7168 (AUTH: method length 0/2/4 x data size)",
			"length arithmetic":   "variable-part length fully symbolic over 0..65531 (contents irrelevant)",
			"short topics":        "all 2-byte names and all 65536 IDs (fully symbolic)",
		},
		Outside: []string{"variable field sizes between the listed ones are covered only by the symbolic length-arithmetic harness, not with contents"},
	})
}

func c22Insts(lens []int64) []Inst {
	out := []Inst{inst("packets1", "VH_C22_fields")}
	for _, n := range lens {
		if n >= 2 && n <= 255 {
			out = append(out, inst("packets1", "VH_C22_reencode", n, 0))
		}
		if n >= 4 {
			out = append(out, inst("packets1", "VH_C22_reencode", n, 1))
		}
	}
	return out
}

func init() {
	reg(&Spec{
		ID:      "C22",
		Pkgs:    []string{"packets1"},
		Quick:   func() []Inst { return c22Insts(cat(rng(0, 24), rng(253, 262))) },
		Thor:    func() []Inst { return c22Insts(rng(0, 300)) },
		Asserts: []string{"C22.accepts_only_wellformed", "C22.fields", "C22.fields_deep", "C22.repack_ok", "C22.repack_wellformed", "C22.repack_type", "C22.repack_body", "C22.repack_bodylen"},
		Reach:   []string{"C22.decoded", "C22.rejected", "C22.disconnect_zero"},
		Bounds: map[string]string{
			"fields harness":   "datagram length symbolic 0..8192, all bytes symbolic; scalar fields compared exactly, variable fields by length and (for []byte) by aliasing of the receive buffer",
			"reencode harness": "datagram of exactly n symbolic bytes whose length field equals n, in the 1-octet format (n<=255) and in the 3-octet format (n>=4), quick n in 0..24 and 253..262, thorough every n in 0..300; variable fields compared byte by byte; Pack() of the decoded packet compared with the datagram",
			"oracle":           "independent reference parser (harness/shared/sn.go.tmpl) written from the MQTT-SN 1.2 byte layout; header form by first octet only",
		},
		Outside: []string{"contents of variable fields of datagrams longer than 300 bytes (lengths and aliasing are still covered up to 8192)"},
	})
}
