package main

func init() {
	reg(&Spec{
		ID:      "C20",
		Pkgs:    []string{"packets1"},
		Quick:   func() []Inst { return []Inst{inst("packets1", "VH_C20_read")} },
		Thor:    func() []Inst { return []Inst{inst("packets1", "VH_C20_read")} },
		Asserts: []string{"C20.nopanic"},
		Reach:   []string{"C20.decoded", "C20.rejected"},
		Bounds: map[string]string{
			"datagram length": "symbolic n in [0, 8192] (transport maximum), every byte symbolic; bytes beyond n are zero as in the freshly made receive buffer",
			"entry point":     "packets1.ReadPacket with all 28 Unpack methods and packets.Header.Unpack",
		},
		Outside: []string{"String() methods and logging are not executed", "datagrams above 8192 bytes (the transports cannot deliver them)"},
	})
}
