package main

import (
	"bufio"
	"fmt"
	"os"
	"path/filepath"
	"regexp"
	"strconv"
	"strings"

	"verif/engine/sym"
)

// known_findings.txt: one entry per line.
//
//	known: property=C06 assert=C06.client_ack region="m1 == m2 && k1 == 3" what="..."
//	fixed: property=C20 <commit> <what failed>
//
// A region is a conjunction (&&) of comparisons  label OP (label|integer)  over
// values the harness exposed with vLabel. An entry suppresses nothing by itself:
// the check asks the solver whether the assertion is violable OUTSIDE all listed
// regions (-> VIOLATION) and, per region, INSIDE it (-> KNOWN-FINDING line).

var kvRe = regexp.MustCompile(`(\w+)=("([^"]*)"|\S+)`)

type cmpAtom struct {
	lhs, op, rhs string
}

func loadRegions(id string) ([]sym.Region, int, error) {
	f, err := os.Open(filepath.Join(verifDir, "known_findings.txt"))
	if err != nil {
		if os.IsNotExist(err) {
			return nil, 0, nil
		}
		return nil, 0, err
	}
	defer f.Close()
	var out []sym.Region
	fixed := 0
	sc := bufio.NewScanner(f)
	ln := 0
	for sc.Scan() {
		ln++
		line := strings.TrimSpace(sc.Text())
		if line == "" || strings.HasPrefix(line, "#") {
			continue
		}
		switch {
		case strings.HasPrefix(line, "fixed:"):
			if strings.Contains(line, "property="+id+" ") {
				fixed++
			}
			continue
		case strings.HasPrefix(line, "known:"):
		default:
			return nil, 0, fmt.Errorf("line %d: entry must start with known: or fixed:", ln)
		}
		kv := map[string]string{}
		for _, m := range kvRe.FindAllStringSubmatch(line[6:], -1) {
			v := m[2]
			if m[3] != "" || strings.HasPrefix(v, `"`) {
				v = m[3]
			}
			kv[m[1]] = v
		}
		if kv["property"] != id {
			continue
		}
		if kv["assert"] == "" || kv["region"] == "" || kv["what"] == "" {
			return nil, 0, fmt.Errorf("line %d: known entry needs assert=, region=, what=", ln)
		}
		atoms, err := parseRegion(kv["region"])
		if err != nil {
			return nil, 0, fmt.Errorf("line %d: %v", ln, err)
		}
		name := fmt.Sprintf("%s@%d", kv["assert"], ln)
		out = append(out, sym.Region{Name: name, Assert: kv["assert"], Text: kv["what"], Pred: regionPred(atoms)})
	}
	return out, fixed, nil
}

var atomRe = regexp.MustCompile(`^\s*([A-Za-z_][\w.]*)\s*(==|!=|<=|>=|<|>)\s*([A-Za-z_][\w.]*|\d+|0x[0-9a-fA-F]+)\s*$`)

func parseRegion(s string) ([]cmpAtom, error) {
	var out []cmpAtom
	for _, part := range strings.Split(s, "&&") {
		m := atomRe.FindStringSubmatch(part)
		if m == nil {
			return nil, fmt.Errorf("cannot parse region atom %q", part)
		}
		out = append(out, cmpAtom{m[1], m[2], m[3]})
	}
	return out, nil
}

func regionPred(atoms []cmpAtom) func(p *sym.Path) (*sym.Term, bool) {
	return func(p *sym.Path) (*sym.Term, bool) {
		c := p.C
		r := c.True
		for _, a := range atoms {
			l, ok := p.Label(a.lhs)
			if !ok {
				return nil, false
			}
			var rt *sym.Term
			if n, err := strconv.ParseUint(a.rhs, 0, 64); err == nil {
				rt = c.Const(l.W, n)
			} else {
				rt, ok = p.Label(a.rhs)
				if !ok {
					return nil, false
				}
			}
			if rt.W != l.W {
				// compare at the wider width
				w := l.W
				if rt.W > w {
					w = rt.W
				}
				l, rt = c.Zext(l, w), c.Zext(rt, w)
			}
			var t *sym.Term
			switch a.op {
			case "==":
				t = c.Eq(l, rt)
			case "!=":
				t = c.Ne(l, rt)
			case "<":
				t = c.Ult(l, rt)
			case "<=":
				t = c.Ule(l, rt)
			case ">":
				t = c.Ult(rt, l)
			case ">=":
				t = c.Ule(rt, l)
			}
			r = c.And(r, t)
		}
		return r, true
	}
}
