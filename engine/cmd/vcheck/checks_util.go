package main

func init() {
	reg(&Spec{
		ID: "C29", Pkgs: []string{"util", "transactions"}, EngineOnly: []string{"VH_C29_concurrent_next", "VH_C29_concurrent_wrap", "VH_C29_concurrent_store"},
		Quick: func() []Inst {
			return []Inst{inst("util", "VH_C29_next"), inst("util", "VH_C29_new"), inst("util", "VH_C29_state"),
				inst("transactions", "VH_C29_store", 3), inst("transactions", "VH_C29_store", 4),
				inst("util", "VH_C29_concurrent_next", 2), inst("util", "VH_C29_concurrent_wrap", 2), inst("transactions", "VH_C29_concurrent_store", 2)}
		},
		Thor: func() []Inst {
			return []Inst{inst("util", "VH_C29_next"), inst("util", "VH_C29_new"), inst("util", "VH_C29_state"),
				inst("transactions", "VH_C29_store", 4), Inst{Pkg: "transactions", Fn: "VH_C29_store", Args: []int64{5}, MaxPaths: 400000},
				Inst{Pkg: "util", Fn: "VH_C29_concurrent_next", Args: []int64{3}, MaxPaths: 100000}, inst("util", "VH_C29_concurrent_wrap", 2), Inst{Pkg: "transactions", Fn: "VH_C29_concurrent_store", Args: []int64{3}, MaxPaths: 100000}}
		},
		Asserts: []string{"C29.next_returns_state", "C29.next_wraps", "C29.next_increments", "C29.next_stays_in_range", "C29.overflow_exactly_after_wrap",
			"C29.consecutive_distinct", "C29.new_starts_at_min", "C29.first_is_min", "C29.state_swap", "C29.store_get_found", "C29.store_get_value",
			"C29.store_getbytype_found", "C29.store_getbytype_value",
			"C29.concurrent_ids_consecutive", "C29.concurrent_ids_distinct", "C29.concurrent_ids_ordered_per_goroutine", "C29.concurrent_race_free", "C29.concurrent_wrap_in_range", "C29.concurrent_wrap_overflow_with_min_only", "C29.concurrent_wrap_ids_cyclic", "C29.concurrent_wrap_race_free", "C29.concurrent_own_key_visible", "C29.concurrent_final_content"},
		Reach: []string{"C29.wrap", "C29.step", "C29.concurrent_done", "C29.concurrent_wrap_done", "C29.concurrent_store_done"},
		Bounds: map[string]string{
			"ID sequence": "one Next() (and a second, chained) from an arbitrary state: min <= next <= max and the overflow flag all symbolic over the full 16-bit range (induction: covers every range and every number of calls)",
			"store":       "sequences of 3..4 (thorough 4..5) operations Store/Delete/Get/StoreByType/DeleteByType/GetByType with symbolic kinds and symbolic keys against a reference association list",
			"atomicity":   "pre-emptive interleavings (a context switch offered before every shared access and lock operation; context bound 2, thorough 3): two goroutines taking two IDs each get the four consecutive IDs, each once, in order per goroutine; two goroutines storing / deleting / reading distinct symbolic keys leave exactly the sequential result; no lock-free conflicting accesses",
		},
		Outside: []string{"store histories longer than 5 operations", "more than two goroutines, more than 3 pre-emptions (the wrapping harness: more than 2 - context bound 3 did not finish within 10 minutes there)", "weak-memory behaviours", "schedule-dependent counterexamples are confirmed by concrete re-execution of the recorded schedule in the engine, not natively"},
	})
}

func c19Insts(maxrc int64) []Inst {
	var out []Inst
	for rc := int64(0); rc <= maxrc; rc++ {
		out = append(out, inst("transactions", "VH_C19_retry", rc, 0, 0))
		for j := int64(1); j <= rc && j <= 2; j++ {
			out = append(out, inst("transactions", "VH_C19_retry", rc, j, 0), inst("transactions", "VH_C19_retry", rc, j, 1))
		}
	}
	for o := int64(0); o <= 2; o++ {
		out = append(out, inst("transactions", "VH_C19_timed", o))
	}
	return out
}

func init() {
	reg(&Spec{
		ID: "C19", Pkgs: []string{"transactions"}, TimedNative: true,
		Quick: func() []Inst { return c19Insts(4) }, Thor: func() []Inst { return c19Insts(6) },
		Asserts: []string{"C19.retry_eventually_fails", "C19.retry_err", "C19.retry_callback_count", "C19.retry_callback_times", "C19.retry_fail_time",
			"C19.retry_finally_ran", "C19.retry_no_timer_left", "C19.timed_timer_armed", "C19.timed_deadline", "C19.timed_timeout", "C19.timed_timer_stopped", "C19.timed_success", "C19.timed_fail", "C19.timed_finally_ran"},
		Bounds: map[string]string{
			"retry":  "retryCount 0..4 (thorough 0..6), retryDelay symbolic in (0, 2^40) ns, virtual time; no progress, or progress (Proceed into a different or an equal state) right after the 1st or 2nd retry",
			"timed":  "timeout symbolic in (0, 2^40) ns; nothing happens / Success before the deadline / Fail before the deadline",
			"timers": "time.AfterFunc/Stop modelled by the engine's virtual timer table; callbacks run as tasks",
		},
		Outside: []string{"Success exactly at the deadline (the property does not order simultaneous events)", "real-time slack of the Go runtime"},
	})
}

func init() {
	reg(&Spec{
		ID: "C18", Pkgs: []string{"transactions", "client"}, TimedNative: true, LoopBound: 400, ValidateN: 8, EngineOnly: []string{"VH_C18_race", "VH_C18_timed_race", "VH_C18_sleep_race"},
		Quick: func() []Inst {
			var out []Inst
			for _, fa := range []int64{0, 1, 2} {
				out = append(out, inst("transactions", "VH_C18_retry", 3, 1, fa), inst("transactions", "VH_C18_retry", 2, 2, fa))
			}
			out = append(out, inst("transactions", "VH_C18_timed", 3))
			out = append(out, inst("transactions", "VH_C18_race", 2), inst("transactions", "VH_C18_timed_race", 2, 0), inst("transactions", "VH_C18_timed_race", 2, 1))
			out = append(out, Inst{Pkg: "client", Fn: "VH_C18_sleep_race", Args: []int64{1}, LoopBound: 2000})
			return out
		},
		Thor: func() []Inst {
			var out []Inst
			for _, fa := range []int64{0, 1, 2, 3} {
				out = append(out, inst("transactions", "VH_C18_retry", 4, 1, fa), inst("transactions", "VH_C18_retry", 4, 2, fa), inst("transactions", "VH_C18_retry", 5, 0, fa))
			}
			out = append(out, inst("transactions", "VH_C18_timed", 4), inst("transactions", "VH_C18_timed", 5))
			out = append(out, Inst{Pkg: "transactions", Fn: "VH_C18_race", Args: []int64{3}, MaxPaths: 200000}, Inst{Pkg: "transactions", Fn: "VH_C18_timed_race", Args: []int64{3, 0}, MaxPaths: 200000}, Inst{Pkg: "transactions", Fn: "VH_C18_timed_race", Args: []int64{3, 1}, MaxPaths: 200000})
			out = append(out, Inst{Pkg: "client", Fn: "VH_C18_sleep_race", Args: []int64{2}, LoopBound: 2000, MaxPaths: 60000})
			return out
		},
		Asserts: []string{"C18.finally_ran_once_at_done", "C18.done_stays_closed", "C18.err_stable_after_done", "C18.finally_exactly_once", "C18.no_retry_callback_after_done", "C18.no_panic",
			"C18.race_finally_exactly_once", "C18.race_no_retry_callback_after_done", "C18.race_err_is_the_first_result", "C18.race_free", "C18.race_finally_ran_when_done_observed", "C18.race_no_panic", "C18.sleep_race_no_resend_after_reply", "C18.sleep_race_sleep_succeeds", "C18.sleep_race_no_panic"},
		Reach:   []string{"C18.finished", "C18.event_after_done", "C18.retry_history_done", "C18.timed_history_done", "C18.race_done", "C18.timed_race_done", "C18.sleep_race_done"},
		Bounds: map[string]string{
			"events":   "every sequence of n events (quick 2..3, thorough 4..5) over {Success, Fail, Proceed, next timer expiry, context cancellation} on a RetryTransaction (retryCount 0..2, symbolic retryDelay, retry callback failing on its k-th call, k = 0..3) / {Success, Fail, timer expiry, cancellation} on a TimedTransaction (symbolic timeout, 0 included), then all remaining timers fire",
			"schedule": "event sequences: cooperative tasks (an event runs to completion before the next one; timer callbacks run at their virtual instants)",
			"races":    "pre-emptive interleavings (a context switch is offered before every access to shared memory and every lock operation; context bound 2, thorough 3) of Success() with the retry timer's callback on a RetryTransaction while a third goroutine waits on Done; of Success() with the timeout callback on a TimedTransaction; and of NewTimedTransaction with a zero timeout, whose timer goroutine is runnable before the constructor has stored the timer; and of the client's Sleep() call (client/sleep_transaction.go) with the receive loop handling the gateway's immediate DISCONNECT reply (context bound 1, thorough 2): no goroutine crashes, no DISCONNECT is resent after the reply, Sleep returns nil after the wake-up PINGRESP",
		},
		Outside: []string{"more than 3 pre-emptions; Proceed / Fail / cancellation racing with the timer (only Success vs. timer is interleaved pre-emptively)", "data races are reported only when both conflicting accesses are lock-free (adjacency criterion); weak-memory effects", "the wake-up phase of the sleep transaction is interleaved cooperatively only (C26/C28/C33)", "schedule-dependent counterexamples are confirmed by concrete re-execution of the recorded schedule in the engine, not natively"},
	})
}
