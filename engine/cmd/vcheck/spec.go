package main

// Inst is one harness instance: a harness function with concrete int arguments.
type Inst struct {
	Pkg  string // package directory relative to /repo
	Fn   string
	Args []int64
	// per-instance option overrides (0 = default)
	LoopBound int
	MaxPaths  int
}

// Spec describes the check of one property.
type Spec struct {
	ID      string
	Pkgs    []string // package dirs that carry harness overlays
	Load    []string // extra patterns to load (default: Pkgs)
	Quick   func() []Inst
	Thor    func() []Inst
	Asserts []string // assertion labels that must be covered (vacuity guard)
	Reach   []string // reach labels that must be hit
	Bounds  map[string]string
	Outside []string
	Assume  []string
	Subst   map[string]string
	// FrameSites: qualified function names whose every call site must lie in a
	// function executed by some harness path (frame obligation).
	FrameCallees []string
	LoopBound    int
	TimeoutMs    int
	SkipValidate bool
	// TimedNative: the harnesses use real timers when run natively; a native
	// validation run that differs (scheduling jitter) is retried and, if it still
	// differs, reported as a note, not as a failure of the check.
	TimedNative bool
	// EngineOnly: harnesses that depend on substituted functions and therefore
	// cannot run natively: their sampled paths are not part of the native
	// differential validation, and their counterexamples are confirmed by
	// concrete re-execution of the real code in the engine only.
	EngineOnly   []string
	AllowBlocked bool
	ValidateN    int
}

var specs = map[string]*Spec{}

func reg(s *Spec) { specs[s.ID] = s }

func inst(pkg, fn string, args ...int64) Inst { return Inst{Pkg: pkg, Fn: fn, Args: args} }

func rng(lo, hi int64) []int64 {
	var out []int64
	for i := lo; i <= hi; i++ {
		out = append(out, i)
	}
	return out
}

func cat(xs ...[]int64) []int64 {
	var out []int64
	seen := map[int64]bool{}
	for _, x := range xs {
		for _, v := range x {
			if !seen[v] {
				seen[v] = true
				out = append(out, v)
			}
		}
	}
	return out
}

// timedHarnessPrefixes: harnesses that use real timers / goroutines when run
// natively; their native validation runs are subject to scheduling jitter.
var timedHarnessPrefixes = []string{"VH_C10_", "VH_C11_", "VH_C12_", "VH_C13_", "VH_C16_", "VH_C17_", "VH_C18_", "VH_C19_", "VH_C26_", "VH_C28_", "VH_C33_", "VH_C34_", "VH_CL_"}

func isTimedHarness(msg string) bool {
	for _, p := range timedHarnessPrefixes {
		if len(msg) >= len(p) && msg[:len(p)] == p {
			return true
		}
	}
	return false
}
