package main

func init() {
	reg(&Spec{
		ID: "C30", Pkgs: []string{"topics"},
		Quick: func() []Inst {
			return []Inst{inst("topics", "VH_C30_merge", 0, 1), inst("topics", "VH_C30_merge", 1, 1), inst("topics", "VH_C30_merge", 0, 2), inst("topics", "VH_C30_merge", 1, 2), inst("topics", "VH_C30_merge", 2, 1)}
		},
		Thor: func() []Inst {
			return []Inst{inst("topics", "VH_C30_merge", 0, 1), inst("topics", "VH_C30_merge", 1, 1), inst("topics", "VH_C30_merge", 0, 2), inst("topics", "VH_C30_merge", 1, 2), inst("topics", "VH_C30_merge", 2, 2), inst("topics", "VH_C30_merge", 0, 3), inst("topics", "VH_C30_merge", 2, 3)}
		},
		Asserts: []string{"C30.options_parse", "C30.merge_entry_present", "C30.merge_entry_value"},
		Reach:   []string{"C30.entry_found"},
		Bounds: map[string]string{
			"semantics": "file map of 0..2 entries (client 'a' or '*', ID one digit, name 1 symbolic byte) + 1..2 (thorough 3) options '[cid;]name;id' with symbolic client ID / name / digit, parsed by the real ParsePredefinedTopicOptions and merged by the real Merge; every (client, ID) lookup against the reference 'later overrides earlier, no client ID = *'",
		},
		Outside: []string{"YAML decoding; flag and environment parsing by urfave/cli", "the wiring of the three tools' handleAction closures (see DESIGN.md: decided separately)"},
	})
}

func init() {
	reg(&Spec{
		ID: "C32", Pkgs: []string{"gateway", "util", "client"}, LoopBound: 400,
		Quick: func() []Inst {
			var out []Inst
			for _, c := range [][3]int64{{1, 1, 2}, {1, 1, 3}, {2, 1, 2}, {1, 2, 2}} {
				out = append(out, inst("gateway", "VH_C32_publish", c[0], c[1], c[2]), inst("gateway", "VH_C32_deliver", c[0], c[1], c[2]), inst("gateway", "VH_C32_subscribe", c[0], c[1], c[2]))
			}
			return out
		},
		Thor: func() []Inst {
			var out []Inst
			for _, c := range [][3]int64{{1, 1, 2}, {1, 1, 3}, {2, 1, 2}, {1, 2, 2}, {2, 2, 2}, {2, 2, 3}, {1, 1, 1}} {
				out = append(out, inst("gateway", "VH_C32_publish", c[0], c[1], c[2]), inst("gateway", "VH_C32_deliver", c[0], c[1], c[2]), inst("gateway", "VH_C32_subscribe", c[0], c[1], c[2]))
			}
			return out
		},
		Asserts: []string{"C32.publish_forwarded", "C32.broker_sees_client_name", "C32.delivered_as_one_datagram", "C32.short_name_uses_short_id", "C32.predefined_name_uses_predefined_id", "C32.callback_invoked", "C32.client_sees_broker_name", "C32.subscribe_forwarded", "C32.broker_sees_client_filter"},
		Reach:   []string{"C32.predefined_publish", "C32.short_publish", "C32.delivered", "C32.predefined_subscribe"},
		Bounds: map[string]string{
			"composition":   "a real Client (driven on a recording connection, handlePacket called directly) and a real gateway handler sharing one PredefinedTopics object; every datagram passes through the real encoder and decoder",
			"configuration": "1..2 client-specific + 1..2 '*' entries with symbolic IDs and symbolic names of 2 or 3 bytes (2-byte names are also short names); client ID one symbolic byte",
			"flows":         "publish by the ID bisquitt-pub derives (GetTopicID) or by short name; SubscribePredefined; broker message on a predefined or short name delivered to a '#' subscription",
		},
		Outside: []string{"larger configurations", "names longer than 3 bytes"},
	})
}
