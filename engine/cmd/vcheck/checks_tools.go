package main

func init() {
	reg(&Spec{
		ID: "C30", Pkgs: append([]string{"topics"}, toolPkgs...), Load: append([]string{"./topics"}, toolLoad...), Subst: toolSubst, ValidateN: 24,
		Quick: func() []Inst {
			return []Inst{inst("cmd/bisquitt-pub", "VH_TOOL_pub"), inst("cmd/bisquitt-sub", "VH_TOOL_sub"), inst("cmd/bisquitt", "VH_TOOL_gateway"), inst("topics", "VH_C30_merge", 0, 1), inst("topics", "VH_C30_merge", 1, 1), inst("topics", "VH_C30_merge", 0, 2), inst("topics", "VH_C30_merge", 1, 2), inst("topics", "VH_C30_merge", 2, 1)}
		},
		Thor: func() []Inst {
			return []Inst{inst("cmd/bisquitt-pub", "VH_TOOL_pub"), inst("cmd/bisquitt-sub", "VH_TOOL_sub"), inst("cmd/bisquitt", "VH_TOOL_gateway"), inst("topics", "VH_C30_merge", 0, 1), inst("topics", "VH_C30_merge", 1, 1), inst("topics", "VH_C30_merge", 0, 2), inst("topics", "VH_C30_merge", 1, 2), inst("topics", "VH_C30_merge", 2, 2), Inst{Pkg: "topics", Fn: "VH_C30_merge", Args: []int64{0, 3}, MaxPaths: 400000}, Inst{Pkg: "topics", Fn: "VH_C30_merge", Args: []int64{2, 3}, MaxPaths: 400000}}
		},
		Asserts: []string{"C30.options_parse", "C30.merge_entry_present", "C30.merge_entry_value", "C30.tool_reads_topics_file", "C30.tool_option_overrides_file", "C30.tool_starts_when_allowed"},
		Reach:   []string{"C30.entry_found", "C30.tool_file_given", "C30.tool_option_given"},
		Bounds: map[string]string{
			"semantics": "file map of 0..2 entries (client 'a' or '*', ID one digit, name 1 symbolic byte) + 1..2 (thorough 3) options '[cid;]name;id' with symbolic client ID / name / digit, parsed by the real ParsePredefinedTopicOptions and merged by the real Merge; every (client, ID) lookup against the reference 'later overrides earlier, no client ID = *'",
		},
		Outside: []string{"YAML decoding; flag and environment parsing by urfave/cli (exercised only by the sampled runs of the real binaries)", "more than one --predefined-topic option in the tool runs (the merge semantics are covered by VH_C30_merge)"},
	})
}

func init() {
	reg(&Spec{
		ID: "C32", Pkgs: []string{"gateway", "util", "client"}, LoopBound: 400,
		Quick: func() []Inst {
			var out []Inst
			for _, c := range [][3]int64{{1, 1, 2}, {1, 1, 3}, {2, 1, 2}, {1, 2, 2}} {
				out = append(out, inst("gateway", "VH_C32_publish", c[0], c[1], c[2]), inst("gateway", "VH_C32_deliver", c[0], c[1], c[2]), inst("gateway", "VH_C32_subscribe", c[0], c[1], c[2]))
			}
			return out
		},
		Thor: func() []Inst {
			var out []Inst
			for _, c := range [][3]int64{{1, 1, 2}, {1, 1, 3}, {2, 1, 2}, {1, 2, 2}, {2, 2, 2}, {2, 2, 3}, {1, 1, 1}} {
				out = append(out, inst("gateway", "VH_C32_publish", c[0], c[1], c[2]), inst("gateway", "VH_C32_deliver", c[0], c[1], c[2]), inst("gateway", "VH_C32_subscribe", c[0], c[1], c[2]))
			}
			return out
		},
		Asserts: []string{"C32.publish_forwarded", "C32.broker_sees_client_name", "C32.delivered_as_one_datagram", "C32.short_name_uses_short_id", "C32.predefined_name_uses_predefined_id", "C32.callback_invoked", "C32.client_sees_broker_name", "C32.subscribe_forwarded", "C32.broker_sees_client_filter"},
		Reach:   []string{"C32.predefined_publish", "C32.short_publish", "C32.delivered", "C32.predefined_subscribe"},
		Bounds: map[string]string{
			"composition":   "a real Client (driven on a recording connection, handlePacket called directly) and a real gateway handler sharing one PredefinedTopics object; every datagram passes through the real encoder and decoder",
			"configuration": "1..2 client-specific + 1..2 '*' entries with symbolic IDs and symbolic names of 2 or 3 bytes (2-byte names are also short names); client ID one symbolic byte",
			"flows":         "publish by the ID bisquitt-pub derives (GetTopicID) or by short name; SubscribePredefined; broker message on a predefined or short name delivered to a '#' subscription",
		},
		Outside: []string{"larger configurations", "names longer than 3 bytes"},
	})
}

func init() {
	reg(&Spec{
		ID: "C02", Pkgs: []string{"gateway", "util", "client"}, LoopBound: 400,
		Quick: func() []Inst {
			return []Inst{inst("gateway", "VH_C02_deliver", 1, 1, 0), inst("gateway", "VH_C02_deliver", 2, 1, 0), inst("gateway", "VH_C02_deliver", 3, 1, 0), inst("gateway", "VH_C02_deliver", 3, 2, 0), inst("gateway", "VH_C02_deliver", 3, 1, 1)}
		},
		Thor: func() []Inst {
			return []Inst{inst("gateway", "VH_C02_deliver", 1, 1, 0), inst("gateway", "VH_C02_deliver", 2, 1, 0), inst("gateway", "VH_C02_deliver", 3, 1, 0), inst("gateway", "VH_C02_deliver", 3, 2, 0), inst("gateway", "VH_C02_deliver", 4, 2, 0), inst("gateway", "VH_C02_deliver", 2, 2, 0), inst("gateway", "VH_C02_deliver", 3, 1, 1)}
		},
		Asserts: []string{"C02.accepted", "C02.one_datagram", "C02.wellformed", "C02.register_only_for_new_names", "C02.register_carries_name", "C02.register_id_fresh", "C02.publish_after_regack", "C02.publish_uses_registered_id", "C02.is_publish", "C02.client_delivers", "C02.client_resolves_broker_name", "C02.same_payload_qos_retain"},
		Reach:   []string{"C02.registers_first", "C02.direct_publish", "C02.delivered", "C02.unsubscribed_first"},
		Bounds: map[string]string{
			"flow":          "broker PUBLISH (topic name of 1..3 symbolic bytes, thorough 1..4; QoS 0..2, retain, message ID, 2 payload bytes symbolic) through the real handleBrokerPublish; a REGISTER is answered by the real client (REGACK) and the gateway's PUBLISH is delivered through the real client to a '#' handler",
			"state":         "active client; registry of 1..2 entries and predefined 1+1 entries with symbolic IDs/names shared by gateway and client; pre-state invariant: the client knows every gateway registration under the same ID",
		},
		Outside: []string{"the acknowledgement legs of QoS 1/2 (C16)", "larger registries"},
	})
}

func c06Insts() []Inst {
	var out []Inst
	for k1 := int64(0); k1 <= 2; k1++ {
		for k2 := int64(0); k2 <= 3; k2++ {
			for o := int64(0); o <= 1; o++ {
				out = append(out, inst("gateway", "VH_C06_gw", k1, k2, o))
			}
		}
	}
	return out
}

func init() {
	reg(&Spec{
		ID: "C06", Pkgs: []string{"gateway", "util", "client"}, LoopBound: 400,
		Quick: func() []Inst {
			out := c06Insts()
			for k := int64(0); k <= 4; k++ {
				out = append(out, inst("client", "VH_C06_cl", k, 0), inst("client", "VH_C06_cl", k, 1))
			}
			return out
		},
		Asserts: []string{"C06.gw_client_exchange_acknowledged", "C06.gw_broker_exchange_continues", "C06.cl_gateway_publish_gets_pubrec", "C06.cl_api_call_completes", "C06.cl_gateway_exchange_completes", "C06.cl_gateway_message_delivered_once"},
		Reach:   []string{"C06.gw_done", "C06.cl_done"},
		Bounds: map[string]string{
			"gateway": "client-initiated PUBLISH QoS 1 / SUBSCRIBE / PUBLISH QoS 2 with message ID m1 and broker-initiated PUBLISH QoS 1 / QoS 2 / QoS 1 on a new topic (REGISTER) with message ID m2, m1 and m2 symbolic and unconstrained, both start orders; then each side's acknowledgement",
			"client":  "API call in flight (Publish QoS 1/2, Subscribe, Register, Unsubscribe; message ID from the client's sequence in a symbolic state) and a QoS 2 PUBLISH from the gateway with symbolic message ID, both orders; then the acknowledgements and the PUBREL",
		},
		Outside: []string{"three or more overlapping exchanges", "expiry of a third exchange with the same ID"},
	})
}

func c16Insts(maxrc int64) []Inst {
	var out []Inst
	for qos := int64(1); qos <= 2; qos++ {
		for kind := int64(0); kind <= 2; kind++ {
			out = append(out, Inst{Pkg: "gateway", Fn: "VH_C16_flow", Args: []int64{qos, kind, 1, 0, -1, -1}, LoopBound: 400})
			for rc := int64(1); rc <= maxrc; rc++ {
				if (kind == 1 || qos == 2) && rc > 1 {
					// (RetryCount 2 with QoS 2 exceeds the path budget: reduced bound)
					continue
				}
				for f1 := int64(0); f1 <= 2; f1++ {
					for f2 := int64(0); f2 <= 2; f2++ {
						out = append(out, Inst{Pkg: "gateway", Fn: "VH_C16_flow", Args: []int64{qos, kind, rc, 1, f1, f2}, LoopBound: 400, MaxPaths: 60000})
					}
				}
			}
		}
		for rc := int64(0); rc <= maxrc+1; rc++ {
			out = append(out, Inst{Pkg: "gateway", Fn: "VH_C16_overbudget", Args: []int64{qos, rc}, LoopBound: 400})
		}
	}
	return out
}

func init() {
	reg(&Spec{
		ID: "C16", Pkgs: []string{"gateway", "util", "client"}, LoopBound: 400, ValidateN: 6,
		Quick: func() []Inst { return c16Insts(1) }, Thor: func() []Inst { return c16Insts(2) },
		Asserts: []string{"C16.retransmission_same_message", "C16.retransmission_has_dup", "C16.qos1_delivered", "C16.qos1_broker_gets_puback", "C16.qos1_no_puback_before_client",
			"C16.qos2_handshake_completes_at_broker", "C16.qos2_handler_runs_exactly_once", "C16.delivered_message_is_the_brokers", "C16.exactly_retrycount_retransmissions", "C16.transaction_gone_after_budget"},
		Reach: []string{"C16.flow_done", "C16.overbudget_done"},
		Bounds: map[string]string{
			"flow":   "one broker PUBLISH QoS 1 or 2 (message ID, payload, retain symbolic) on a short / registered / new (REGISTER step included) topic; real gateway handler with its retry transactions in virtual time (RetryDelay symbolic, RetryCount 1; thorough also RetryCount 2 for QoS 1 on short and new topics) and the real client's handlePacket; a model broker answering PUBREC with PUBREL; the fate of every datagram in both directions is a symbolic choice among deliver / drop / duplicate with at most RetryCount consecutive non-deliveries per direction; up to 4*(RetryCount+2) timer rounds",
			"budget": "client never answers: RetryCount 0..2 (thorough 0..3)",
		},
		Outside: []string{"several messages in flight", "loss on the broker (TCP) side", "predefined topics (routing: C32)"},
	})
}

func init() {
	reg(&Spec{
		ID: "C11", Pkgs: []string{"gateway", "util"}, LoopBound: 400, EngineOnly: []string{"VH_C11_race"},
		Quick: func() []Inst {
			var out []Inst
			for k1 := int64(0); k1 <= 5; k1++ {
				out = append(out, inst("gateway", "VH_C11_cycle", k1, -1, 0))
				for k2 := int64(0); k2 <= 5; k2++ {
					out = append(out, inst("gateway", "VH_C11_cycle", k1, k2, 0))
				}
			}
			out = append(out, inst("gateway", "VH_C11_cycle", 0, -1, 1), inst("gateway", "VH_C11_cycle", 1, 0, 1))
			out = append(out, inst("gateway", "VH_C11_timed", 1), inst("gateway", "VH_C11_timed", 3))
			out = append(out, inst("gateway", "VH_C11_race", 1), Inst{Pkg: "gateway", Fn: "VH_C11_race", Args: []int64{2}, MaxPaths: 100000})
			for _, k := range [][2]int64{{0, 0}, {1, 0}, {2, 1}, {3, 0}, {0, 2}} {
				out = append(out, inst("gateway", "VH_C11_two_cycles", k[0], k[1], 0), inst("gateway", "VH_C11_two_cycles", k[0], k[1], 1))
			}
			return out
		},
		Asserts: []string{"C11.sleep_request_answered", "C11.nothing_sent_while_asleep", "C11.buffered_delivered_once_then_pingresp", "C11.buffered_in_original_order", "C11.followed_by_pingresp", "C11.asleep_again_after_pingresp", "C11.timed_delivered_once", "C11.first_cycle_delivered_once", "C11.second_cycle_delivers_only_its_own_packets", "C11.race_message_delivered_once", "C11.race_each_wakeup_answered", "C11.race_free"},
		Reach:   []string{"C11.woke_up", "C11.wake_without_client_id", "C11.second_cycle", "C11.woke_up_later", "C11.second_wakeup", "C11.race_done"},
		Bounds: map[string]string{
			"cycle":  "active client, DISCONNECT(duration symbolic > 0), then 1..2 broker events among PUBLISH QoS 0 short / QoS 1 registered / QoS 0 new topic (REGISTER) / QoS 2 short / PINGRESP / UNSUBACK with symbolic IDs, payload byte, retain; PINGREQ; oracle = a twin session that never slept and received the same events",
			"second": "one more broker PUBLISH after the wake-up PINGRESP (second sleep cycle)",
			"wake":   "the wake-up PINGREQ of the cycle and timed harnesses carries the client ID or an empty client ID field (symbolic choice); the two-cycle and race harnesses always send the ID",
			"race":   "pre-emptive interleavings (context bound 1 and 2) of a broker PUBLISH on the broker-side receive goroutine with the wake-up PINGREQ on the client-side receive goroutine: the message is delivered exactly once, in this wake-up or the next; each wake-up gets one PINGRESP; no lock-free conflicting accesses",
			"cycles": "two sleep cycles: cycle 1 ended by PINGREQ or by CONNECT (back to active), then DISCONNECT(d) again, a second broker event, PINGREQ: only the second cycle's packets arrive, once",
			"timed":  "virtual time: one broker PUBLISH QoS 1 / QoS 2 while asleep, wake-up after a symbolic time < 3.5 s with the gateway's retry timers (RetryDelay 1 s, RetryCount 2) running",
		},
		Outside: []string{"more than two buffered events", "more than 2 pre-emptions in the race harness; races with CONNECT / DISCONNECT instead of PINGREQ", "schedule-dependent counterexamples are confirmed by concrete re-execution of the recorded schedule in the engine, not natively"},
	})
}

func init() {
	reg(&Spec{
		ID: "C12", Pkgs: []string{"gateway", "util"}, LoopBound: 4000, ValidateN: 3,
		Quick: func() []Inst {
			return []Inst{inst("gateway", "VH_C12_active", 2), inst("gateway", "VH_C12_sleep", 2, 1, 0), inst("gateway", "VH_C12_sleep", 2, 2, 5)}
		},
		Thor: func() []Inst {
			return []Inst{inst("gateway", "VH_C12_active", 2), inst("gateway", "VH_C12_active", 5), inst("gateway", "VH_C12_sleep", 2, 1, 0), inst("gateway", "VH_C12_sleep", 2, 2, 5), inst("gateway", "VH_C12_sleep", 2, 2, 0), inst("gateway", "VH_C12_sleep", 3, 2, 0)}
		},
		Asserts: []string{"C12.gap_between_broker_packets", "C12.gap_until_end", "C12.pinger_period", "C12.pinger_keeps_pinging"},
		Reach:   []string{"C12.history_done", "C12.active_done", "C12.pinger_ran"},
		Bounds: map[string]string{
			"session": "the real run() with real receive loops and the real sleep pinger in virtual time; keep-alive K = 2 s (thorough also 3 s / 5 s)",
			"history": "active for a symbolic time < K, then 1..2 sleep cycles: DISCONNECT(d), d symbolic in 1..3K seconds, wake-up PINGREQ after a symbolic time <= d; or three keep-alive PINGREQs at symbolic intervals <= K while active",
		},
		Outside: []string{"longer histories; K outside the listed values; real-time slack"},
	})
}

func c26Seqs(thorough bool) []Inst {
	var out []Inst
	add := func(a, b, c int64) {
		in := inst("gateway", "VH_C26_seq", 60, a, b, c)
		if thorough {
			in.MaxPaths = 60000
		}
		out = append(out, in)
	}
	for o := int64(1); o <= 11; o++ {
		add(o, 0, 0)
	}
	add(13, 0, 0)
	// sleep cycles: sleep, sleep again, back to active
	add(2, 11, 0)
	add(4, 11, 11)
	add(11, 12, 7)
	add(3, 11, 12)
	add(5, 9, 5)
	add(1, 6, 2)
	out = append(out, inst("gateway", "VH_C26_wake_by_connect", 60))
	if thorough {
		for a := int64(1); a <= 11; a++ {
			for b := int64(1); b <= 12; b++ {
				add(a, b, 0)
			}
		}
		for _, s := range []int64{2, 3, 4, 5} {
			add(s, 11, 11)
			add(s, 11, 12)
			add(s, 9, 11)
		}
		add(11, 11, 12)
		add(11, 12, 11)
	}
	return out
}

func init() {
	reg(&Spec{
		ID: "C26", Pkgs: []string{"gateway", "util"}, LoopBound: 4000, ValidateN: 6,
		Quick:   func() []Inst { return c26Seqs(false) },
		Thor:    func() []Inst { return c26Seqs(true) },
		Asserts: []string{"C26.call_returns", "C26.call_succeeds", "C26.broker_sees_conforming_stream", "C26.message_reaches_handler", "C26.burst_reaches_handler", "C26.subscribe_effect", "C26.publish_effect", "C26.unsubscribe_effect", "C26.ping_effect", "C26.connect_effect", "C26.disconnect_effect", "C26.session_survives", "C26.nothing_sent_to_sleeping_client"},
		Reach:   []string{"C26.ops_done", "C26.slept", "C26.woke_by_connect"},
		Bounds: map[string]string{
			"system":    "the real client (real Dial, receive loop, keep-alive loop, transactions), the real gateway session run() and a model MQTT 3.1.1 broker joined by a lossless link in virtual time; client keep-alive 60 s, RetryDelay 1 s; a client in state asleep has its radio off (what is sent to it then is lost)",
			"sequences": "Connect, 1..3 operations, Disconnect. Operations: Register; Subscribe exact / wildcard / short / predefined (symbolic QoS 0..2) each followed by a broker message on a matching topic (symbolic QoS and payload byte; for the wildcard a burst of two on a not yet registered topic); Register+Publish / Publish short / PublishPredefined (symbolic QoS 0..2, retain, payload byte); Unsubscribe; Subscribe + Unsubscribe of a name under a still active wildcard, followed by a broker message on it; Ping; Sleep(d = 1..3 s symbolic) with a broker message arriving meanwhile; Connect after a sleep. Quick: every single operation + 6 triples; thorough: all pairs + 14 triples",
		},
		Outside: []string{"longer sequences, payloads longer than one byte, loss (C16/C17), concurrent API calls"},
	})
}

func init() {
	reg(&Spec{
		ID: "C34", Pkgs: []string{"gateway", "util"}, LoopBound: 4000, ValidateN: 4, TimedNative: true,
		Quick: func() []Inst {
			var out []Inst
			for st := int64(0); st <= 6; st++ {
				out = append(out, inst("gateway", "VH_C34_vanish", st, 2))
			}
			return out
		},
		Thor: func() []Inst {
			var out []Inst
			for st := int64(0); st <= 6; st++ {
				out = append(out, inst("gateway", "VH_C34_vanish", st, 2), inst("gateway", "VH_C34_vanish", st, 3))
			}
			return out
		},
		Asserts: []string{"C34.session_ends", "C34.no_panic", "C34.ends_within_bound", "C34.broker_connection_closed"},
		Reach:   []string{"C34.client_vanishes", "C34.reaped"},
		Bounds: map[string]string{
			"session": "the real run() with its real receive loops, connect transaction and sleep pinger in virtual time; model broker that closes the connection 1.5 x keep-alive after the last packet it received (10 s without any CONNECT); keep-alive K = 2 s (thorough also 3 s)",
			"history": "the client falls silent: before sending anything / after CONNECT with will / while active (last PUBLISH after a symbolic time < K) / asleep for d (symbolic 1..3K s) / woken up after a symbolic time <= d / asleep again for d2 after a wake-up / active again (CONNECT) after a wake-up. Bounds asserted: 10 s grace, connect timeout, 1.5 K, d + 1.5 K (counted from the sleep request or the wake-up), each + 2 connection polls (200 ms)",
			"polls":   "read-deadline expiries of the fake connections are delivered only after timer events (an expiry that finds the context alive is a no-op in util.ConnWithContext)",
		},
		Outside: []string{"longer histories, broker traffic towards the vanished client, K outside the listed values"},
	})
}

var toolSubst = map[string]string{
	"(*github.com/urfave/cli/v2.Context).Bool":                                   "github.com/energomonitor/bisquitt.VCtxBool",
	"(*github.com/urfave/cli/v2.Context).String":                                 "github.com/energomonitor/bisquitt.VCtxString",
	"(*github.com/urfave/cli/v2.Context).Path":                                   "github.com/energomonitor/bisquitt.VCtxPath",
	"(*github.com/urfave/cli/v2.Context).StringSlice":                            "github.com/energomonitor/bisquitt.VCtxStringSlice",
	"(*github.com/urfave/cli/v2.Context).Uint":                                   "github.com/energomonitor/bisquitt.VCtxUint",
	"(*github.com/urfave/cli/v2.Context).Int":                                    "github.com/energomonitor/bisquitt.VCtxInt",
	"(*github.com/urfave/cli/v2.Context).Duration":                               "github.com/energomonitor/bisquitt.VCtxDuration",
	"(*github.com/urfave/cli/v2.Context).IsSet":                                  "github.com/energomonitor/bisquitt.VCtxIsSet",
	"(*github.com/energomonitor/bisquitt/client.Client).Dial":                    "github.com/energomonitor/bisquitt.VClientDial",
	"(*github.com/energomonitor/bisquitt/gateway.Gateway).ListenAndServe":        "github.com/energomonitor/bisquitt.VGatewayListen",
	"github.com/energomonitor/bisquitt/util.NewProductionLogger":                 "github.com/energomonitor/bisquitt.VNewLogger",
	"github.com/energomonitor/bisquitt/util.NewDebugLogger":                      "github.com/energomonitor/bisquitt.VNewLogger",
	"os/signal.Notify":                                                           "github.com/energomonitor/bisquitt.VSignalNotify",
	"net.ResolveTCPAddr":                                                         "github.com/energomonitor/bisquitt.VResolveTCPAddr",
	"github.com/energomonitor/bisquitt/topics.ReadPredefinedTopicsFile":          "github.com/energomonitor/bisquitt.VReadPredefinedTopicsFile",
}

var toolPkgs = []string{"client", "gateway", "util", "root", "cmd/bisquitt", "cmd/bisquitt-pub", "cmd/bisquitt-sub"}
var toolLoad = []string{"./client", "./cmd/bisquitt", "./cmd/bisquitt-pub", "./cmd/bisquitt-sub"}

func toolInsts() []Inst {
	return []Inst{inst("cmd/bisquitt-pub", "VH_TOOL_pub"), inst("cmd/bisquitt-sub", "VH_TOOL_sub"), inst("cmd/bisquitt", "VH_TOOL_gateway")}
}

func init() {
	reg(&Spec{
		ID: "C31", Pkgs: toolPkgs, Load: toolLoad, Subst: toolSubst, LoopBound: 400, ValidateN: 16,
		Quick: func() []Inst {
			out := toolInsts()
			for _, a := range [][3]int64{{0, 0, 0}, {0, 1, 0}, {1, 0, 0}, {1, 1, 1}, {2, 1, 2}, {1, 0, 2}} {
				out = append(out, inst("client", "VH_C31_client", a[0], a[1], a[2]))
			}
			return out
		},
		Thor: func() []Inst {
			out := toolInsts()
			for u := int64(0); u <= 2; u++ {
				for p := int64(0); p <= 2; p++ {
					for s := int64(0); s <= 2; s++ {
						out = append(out, inst("client", "VH_C31_client", u, p, s))
					}
				}
			}
			return out
		},
		Asserts: []string{"C31.tool_refuses_plaintext_credentials", "C31.tool_dtls_as_requested", "C31.tool_user_as_given", "C31.tool_auth_as_requested", "C31.tool_refusal_is_an_error", "C31.tool_starts_when_allowed",
			"C31.auth_right_after_every_connect", "C31.no_auth_without_user", "C31.auth_only_after_connect", "C31.connects_counted"},
		Reach: []string{"C31.tool_started", "C31.tool_refused", "C31.history_done", "C31.with_user"},
		Bounds: map[string]string{
			"tools":  "the real handleAction closures of bisquitt, bisquitt-pub and bisquitt-sub on a symbolic flag table: --dtls, --self-signed, --insecure, --auth / --user (absent, empty, 'u'), --password, --predefined-topics-file, --predefined-topic each present or absent (every combination); cli.Context accessors, loggers, signal.Notify, ResolveTCPAddr, the topics-file reader and the first network step (Client.Dial / Gateway.ListenAndServe) are substituted by stubs (harness/root/clistubs.go); sampled combinations are run against the real binaries, half of them with environment variables instead of flags, and the started/refused outcome compared",
			"client": "real client in virtual time: user of 0..2 and password of 0..2 symbolic bytes, 0..2 unanswered connect attempts (retransmitted CONNECTs), then register, publish, ping, a sleep cycle, a second Connect and Disconnect: every datagram sent is inspected",
		},
		Outside: []string{"certificate files (--cert/--key: the DTLS branch is taken with --self-signed)", "the tools' behaviour after the first network step", "flag parsing by urfave/cli itself (covered only by the sampled runs of the real binaries)"},
	})
}
