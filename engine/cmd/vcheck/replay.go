package main

import (
	"bufio"
	"bytes"
	"encoding/json"
	"fmt"
	"os"
	"os/exec"
	"path/filepath"
	"sort"
	"strings"

	"verif/engine/sym"
)

type replayOut struct {
	Tape     string   `json:"tape"`
	Harness  string   `json:"harness"`
	Status   string   `json:"status"`
	Failures []string `json:"failures"`
	Reached  []string `json:"reached"`
	Obs      []string `json:"obs"`
}

const replayTestTmpl = `package PKGNAME

import (
	"encoding/json"
	"fmt"
	"os"
	"reflect"
	"strings"
	"testing"
)

var vHarnesses = map[string]interface{}{
REGISTRY}

func vRunHarness(name string, args []int64) (status string) {
	h, ok := vHarnesses[name]
	if !ok {
		return "no-such-harness"
	}
	defer func() {
		if r := recover(); r != nil {
			switch r.(type) {
			case vAssumeFailed:
				status = "assume-failed"
			case vTargetHit:
				status = "target-hit"
			default:
				status = fmt.Sprintf("panic: %v", r)
			}
		}
	}()
	fv := reflect.ValueOf(h)
	var in []reflect.Value
	for i, a := range args {
		in = append(in, reflect.ValueOf(a).Convert(fv.Type().In(i)))
	}
	fv.Call(in)
	return "done"
}

func TestVReplay(t *testing.T) {
	for _, tp := range strings.Split(os.Getenv("VTAPES"), ",") {
		if tp == "" {
			continue
		}
		if err := vLoadTape(tp); err != nil {
			fmt.Printf("VREPLAY {\"tape\":%q,\"status\":\"tape-error\"}\n", tp)
			continue
		}
		st := vRunHarness(vTape.Harness, vTape.Args)
		out := map[string]interface{}{"tape": tp, "harness": vTape.Harness, "status": st, "failures": vFailures, "reached": vReachedL, "obs": vObsLog}
		b, _ := json.Marshal(out)
		fmt.Printf("VREPLAY %s\n", b)
	}
}
`

// nativeReplay compiles the harness package natively (go test -overlay; nothing
// is written into /repo) and runs the given tapes. Tapes are retried up to
// `tries` times while they do not hit their target (native map order, timing).
func nativeReplay(e *sym.Engine, spec *Spec, pkg string, tapes []string, tries int) ([]replayOut, error) {
	build := filepath.Join(verifDir, "build", "overlay", spec.ID)
	os.MkdirAll(build, 0o755)
	ov, err := overlayFor(spec.Pkgs)
	if err != nil {
		return nil, err
	}
	repl := map[string]string{}
	for virt, content := range ov {
		rel, _ := filepath.Rel(repoDir, virt)
		real := filepath.Join(build, rel)
		os.MkdirAll(filepath.Dir(real), 0o755)
		if err := os.WriteFile(real, content, 0o644); err != nil {
			return nil, err
		}
		repl[virt] = real
	}
	// replay test file for pkg
	names := e.HarnessFuncs(modPath+"/"+pkg, "VH_")
	var regsb strings.Builder
	for _, n := range names {
		fmt.Fprintf(&regsb, "\t%q: %s,\n", n, n)
	}
	pkgName := ""
	if sp := e.SSAPkgs[modPath+"/"+pkg]; sp != nil {
		pkgName = sp.Pkg.Name()
	}
	src := strings.Replace(replayTestTmpl, "PKGNAME", pkgName, 1)
	src = strings.Replace(src, "REGISTRY", regsb.String(), 1)
	real := filepath.Join(build, pkg, "zz_verif_replay_test.go")
	os.MkdirAll(filepath.Dir(real), 0o755)
	if err := os.WriteFile(real, []byte(src), 0o644); err != nil {
		return nil, err
	}
	repl[filepath.Join(repoDir, pkg, "zz_verif_replay_test.go")] = real
	ovj, _ := json.Marshal(map[string]interface{}{"Replace": repl})
	ovPath := filepath.Join(build, "overlay.json")
	os.WriteFile(ovPath, ovj, 0o644)

	results := map[string]replayOut{}
	pending := tapes
	for try := 0; try < tries && len(pending) > 0; try++ {
		cmd := exec.Command("timeout", "600", "go", "test", "-vet=off", "-count=1", "-overlay", ovPath, "-run", "^TestVReplay$", "-v", "./"+pkg)
		cmd.Dir = repoDir
		cmd.Env = append(os.Environ(), "GOFLAGS=-mod=mod", "GOPROXY=off", "GOSUMDB=off", "GOTOOLCHAIN=local", "VTAPES="+strings.Join(pending, ","), "VACTIVE="+spec.ID+".")
		var out bytes.Buffer
		cmd.Stdout = &out
		cmd.Stderr = &out
		runErr := cmd.Run()
		got := 0
		sc := bufio.NewScanner(&out)
		sc.Buffer(make([]byte, 1<<20), 1<<26)
		var rawTail []string
		for sc.Scan() {
			line := sc.Text()
			if i := strings.Index(line, "VREPLAY "); i >= 0 {
				var ro replayOut
				if json.Unmarshal([]byte(line[i+8:]), &ro) == nil {
					results[ro.Tape] = ro
					got++
				}
				continue
			}
			rawTail = append(rawTail, line)
		}
		if got == 0 && (strings.Contains(strings.Join(rawTail, "\n"), "panic:") || strings.Contains(strings.Join(rawTail, "\n"), "fatal error:")) {
			// the test process crashed (a goroutine panicked) before the first tape reported
			for _, tp := range pending {
				results[tp] = replayOut{Tape: tp, Status: "crashed-before-output"}
			}
			break
		}
		if got == 0 {
			if len(rawTail) > 12 {
				rawTail = rawTail[len(rawTail)-12:]
			}
			return nil, fmt.Errorf("go test produced no replay output (%v): %s", runErr, strings.Join(rawTail, " | "))
		}
		// a process-level crash (fatal error, os.Exit) loses later tapes: keep what we have
		var again []string
		for _, tp := range pending {
			ro, ok := results[tp]
			if !ok {
				results[tp] = replayOut{Tape: tp, Status: "crashed-before-output"}
				continue
			}
			if ro.Status != "target-hit" && try+1 < tries {
				again = append(again, tp)
			}
		}
		pending = again
	}
	var outl []replayOut
	for _, tp := range tapes {
		outl = append(outl, results[tp])
	}
	return outl, nil
}

// validateEncoder: differential validation of interpreter + intrinsics. Sampled
// path models become tapes; each tape is run (a) by the engine in concrete mode
// and (b) natively; failures, reach marks and observations must be identical.
func validateEncoder(rr *runResult, n int) (int, []string, []string) {
	var tapes []*sym.Tape
	skippedLong := 0
	for _, tp := range rr.valTapes {
		if contains(rr.spec.EngineOnly, tp.Harness) {
			continue
		}
		// a native run waits for the virtual time the path advanced: paths that let
		// more than 20 s pass (e.g. a sleep of keep-alive seconds) are not sampled
		var total int64
		for _, a := range tp.Advances {
			total += a
		}
		if total > int64(20e9) {
			skippedLong++
			continue
		}
		tapes = append(tapes, tp)
	}
	_ = skippedLong
	if len(tapes) == 0 {
		return 0, []string{"no tapes sampled"}, nil
	}
	// spread the sample over instances
	if len(tapes) > n {
		step := float64(len(tapes)) / float64(n)
		var sel []*sym.Tape
		for i := 0; i < n; i++ {
			sel = append(sel, tapes[int(float64(i)*step)])
		}
		tapes = sel
	}
	dir := filepath.Join(verifDir, "build", "tapes", rr.spec.ID)
	os.RemoveAll(dir)
	os.MkdirAll(dir, 0o755)
	byPkg := map[string][]string{}
	tapeOf := map[string]*sym.Tape{}
	pkgOfHarness := map[string]string{}
	for _, in := range rr.insts {
		pkgOfHarness[in.Fn] = in.Pkg
	}
	for i, tp := range tapes {
		path := filepath.Join(dir, fmt.Sprintf("t%03d.json", i))
		writeJSON(path, tp)
		pkg := pkgOfHarness[tp.Harness]
		byPkg[pkg] = append(byPkg[pkg], path)
		tapeOf[path] = tp
	}
	w, err := sym.NewWorker(rr.engine, sym.Options{Solver: "z3", LoopBound: 1 << 20, MaxSteps: 50000000, AssertPrefix: rr.spec.ID + "."})
	if err != nil {
		return 0, nil, []string{"cannot start worker: " + err.Error()}
	}
	defer w.Close()
	validated := 0
	var notes, bad []string
	var pkgs []string
	for p := range byPkg {
		pkgs = append(pkgs, p)
	}
	sort.Strings(pkgs)
	for _, pkg := range pkgs {
		paths := byPkg[pkg]
		if strings.HasPrefix(pkg, "cmd/") {
			// tool harnesses: compared against the real binary (toolrun.go)
			for i, path := range paths {
				ok, why := toolValidate(w, rr.engine, pkg, tapeOf[path], i)
				if ok {
					validated++
				} else {
					bad = append(bad, why)
				}
			}
			continue
		}
		native, err := nativeReplay(rr.engine, rr.spec, pkg, paths, 1)
		if err != nil {
			bad = append(bad, "native run failed: "+oneLine(err.Error()))
			continue
		}
		for i, path := range paths {
			tp := tapeOf[path]
			fn := rr.engine.Func(modPath+"/"+pkg, tp.Harness)
			cr := w.ExploreConcrete(fn, tp)
			nat := native[i]
			es := cr.Summary()
			ns := fmt.Sprintf("status=%s failures=%v reached=%v obs=%v", normStatus(nat.Status), sortedCopy(nat.Failures), sortedCopy(dedup(nat.Reached)), nat.Obs)
			for try := 0; es != ns && rr.spec.TimedNative && try < 2; try++ {
				// real timers: retry the tape alone
				again, err := nativeReplay(rr.engine, rr.spec, pkg, []string{path}, 1)
				if err != nil || len(again) != 1 {
					break
				}
				nat = again[0]
				ns = fmt.Sprintf("status=%s failures=%v reached=%v obs=%v", normStatus(nat.Status), sortedCopy(nat.Failures), sortedCopy(dedup(nat.Reached)), nat.Obs)
			}
			if es != ns {
				bad = append(bad, fmt.Sprintf("%s tape %s: engine{%s} native{%s}", tp.Harness, filepath.Base(path), es, ns))
				continue
			}
			validated++
		}
	}
	notes = append(notes, fmt.Sprintf("%d sampled path models replayed in engine concrete mode and natively; outcomes compared (status, failed assertions, reach marks, observations)", len(tapes)))
	return validated, notes, bad
}

func normStatus(s string) string {
	if strings.HasPrefix(s, "panic:") {
		return "panic"
	}
	if s == "target-hit" {
		return "done"
	}
	return s
}

func sortedCopy(xs []string) []string {
	out := append([]string{}, xs...)
	sort.Strings(out)
	return out
}

func dedup(xs []string) []string {
	seen := map[string]bool{}
	var out []string
	for _, x := range xs {
		if !seen[x] {
			seen[x] = true
			out = append(out, x)
		}
	}
	return out
}
