package main

import (
	"flag"
	"fmt"
	"os"
	"path/filepath"
	"sort"
	"strings"
	"time"

	"verif/engine/sym"
)

var repoDir = "/repo"
var verifDir = "/verif"

const modPath = "github.com/energomonitor/bisquitt"

// overlayFor builds the overlay map for the given package directories.
func overlayFor(pkgDirs []string) (map[string][]byte, error) {
	ov := map[string][]byte{}
	// harness files of one package may use the exported hooks of another
	need := map[string]bool{}
	for _, d := range pkgDirs {
		need[d] = true
		switch d {
		case "gateway":
			need["client"], need["util"] = true, true
		case "client":
			need["util"] = true
		}
	}
	pkgDirs = nil
	for d := range need {
		pkgDirs = append(pkgDirs, d)
	}
	sort.Strings(pkgDirs)
	shared, _ := filepath.Glob(filepath.Join(verifDir, "harness", "shared", "*.go.tmpl"))
	if len(shared) == 0 {
		return nil, fmt.Errorf("no shared harness templates found")
	}
	for _, d := range pkgDirs {
		files, _ := filepath.Glob(filepath.Join(verifDir, "harness", d, "*.go"))
		if len(files) == 0 {
			continue
		}
		pkgName := ""
		for _, f := range files {
			b, err := os.ReadFile(f)
			if err != nil {
				return nil, err
			}
			if pkgName == "" {
				for _, line := range strings.Split(string(b), "\n") {
					if strings.HasPrefix(line, "package ") {
						pkgName = strings.TrimSpace(strings.TrimPrefix(line, "package "))
						break
					}
				}
			}
			ov[filepath.Join(repoDir, targetDir(d), "zz_verif_"+filepath.Base(f))] = b
		}
		if d == "root" {
			// stubs only (substituted for library calls of the tools): no harness vocabulary needed
			continue
		}
		for _, sf := range shared {
			tmpl, err := os.ReadFile(sf)
			if err != nil {
				return nil, err
			}
			base := strings.TrimSuffix(filepath.Base(sf), ".go.tmpl")
			ov[filepath.Join(repoDir, d, "zz_verif_shared_"+base+".go")] = []byte(strings.Replace(string(tmpl), "PKGNAME", pkgName, 1))
		}
	}
	return ov, nil
}

func main() {
	if len(os.Args) < 2 {
		fmt.Fprintln(os.Stderr, "usage: vcheck harness|run ...")
		os.Exit(2)
	}
	switch os.Args[1] {
	case "harness":
		cmdHarness(os.Args[2:])
	case "run":
		cmdRun(os.Args[2:])
	case "replay":
		cmdReplay(os.Args[2:])
	default:
		fmt.Fprintln(os.Stderr, "unknown command")
		os.Exit(2)
	}
}

func cmdHarness(args []string) {
	fs := flag.NewFlagSet("harness", flag.ExitOnError)
	pkg := fs.String("pkg", "packets1", "package dir")
	name := fs.String("fn", "", "harness function")
	solver := fs.String("solver", "z3", "solver")
	maxPaths := fs.Int("maxpaths", 20000, "")
	loop := fs.Int("loop", 64, "")
	fs.Parse(args)
	t0 := time.Now()
	ov, err := overlayFor([]string{*pkg, "util", "topics", "packets1", "transactions"})
	if err != nil {
		panic(err)
	}
	e, err := sym.Load(repoDir, ov, "./"+*pkg)
	if err != nil {
		fmt.Println("LOAD ERROR:", err)
		os.Exit(2)
	}
	fmt.Printf("loaded in %v\n", time.Since(t0))
	fn := e.Func(modPath+"/"+*pkg, *name)
	if fn == nil {
		fmt.Println("no such harness", *name)
		os.Exit(2)
	}
	var hargs []int64
	for _, a := range fs.Args() {
		var x int64
		fmt.Sscan(a, &x)
		hargs = append(hargs, x)
	}
	w, err := sym.NewWorker(e, sym.Options{Solver: *solver, MaxPaths: *maxPaths, LoopBound: *loop, AssertPrefix: os.Getenv("VPREFIX")})
	if lf := os.Getenv("VSMTLOG"); lf != "" {
		f, _ := os.Create(lf)
		w.S.Log = f
	}
	if err != nil {
		panic(err)
	}
	defer w.Close()
	t1 := time.Now()
	res := w.Explore(fn, hargs)
	fmt.Printf("explored %s: paths=%d steps=%d status=%v in %v (solver: %d queries, %v)\n", res.Name(), res.Paths, res.Steps, res.Status, time.Since(t1), w.S.Queries, w.S.Time)
	for vi, v := range res.Violations {
		fmt.Printf("VIOLATED %s (known=%q) tape values=%d site=%s msg=%s\n", v.Label, v.InKnown, len(v.Tape.Values), v.Site, v.Msg)
		n := 0
		for _, tv := range v.Tape.Values {
			if tv.Val != 0 && n < 12 {
				fmt.Printf("   %s=%d", tv.Label, tv.Val)
				n++
			}
		}
		fmt.Println()
		if dd := os.Getenv("VTAPEDIR"); dd != "" {
			os.MkdirAll(dd, 0o755)
			writeJSON(filepath.Join(dd, fmt.Sprintf("v%d.json", vi)), v.Tape)
		}
	}
	for _, s := range res.Inconcl {
		fmt.Println("INCONCLUSIVE:", s)
	}
	for k, n := range res.PanicSites {
		fmt.Println("PANIC PATH:", k, n)
	}
	fmt.Println("reached:", res.Reached)
	for _, s := range res.Samples {
		fmt.Println("sample:", s)
	}
	for _, er := range w.S.Errors {
		fmt.Println("SOLVER ERROR:", er)
	}
}
