package main

import (
	"bytes"
	"fmt"
	"net"
	"regexp"
	"os"
	"os/exec"
	"path/filepath"
	"strings"
	"time"

	"verif/engine/sym"
)

// Tool harnesses (VH_TOOL_*) execute the real handleAction closures of the
// command-line tools with library calls substituted (engine only), so they
// cannot be compiled natively. Their tapes are replayed against the real
// thing instead: the tool is built from /repo and run with the flags (or, for
// every other sample, the environment variables) the tape stands for; what is
// compared is whether the tool refused to start or went on to its first
// network step.

var networkErr = regexp.MustCompile(`(?i)(connect|handshake|read udp|write udp|dial|listen)`)

func isToolHarness(name string) bool { return strings.HasPrefix(name, "VH_TOOL_") }

var toolOf = map[string]string{"VH_TOOL_pub": "bisquitt-pub", "VH_TOOL_sub": "bisquitt-sub", "VH_TOOL_gateway": "bisquitt"}

var toolEnvName = map[string]string{"dtls": "DTLS_ENABLED", "self-signed": "SELF_SIGNED", "insecure": "INSECURE", "auth": "AUTH", "user": "USERNAME", "password": "PASSWORD"}

func toolBuild(tool string) (string, error) {
	bin := filepath.Join(verifDir, "build", "tools", tool)
	os.MkdirAll(filepath.Dir(bin), 0o755)
	cmd := exec.Command("go", "build", "-o", bin, "./cmd/"+tool)
	cmd.Dir = repoDir
	cmd.Env = append(os.Environ(), "GOFLAGS=-mod=mod", "GOPROXY=off", "GOSUMDB=off", "GOTOOLCHAIN=local", "CGO_ENABLED=0")
	if out, err := cmd.CombinedOutput(); err != nil {
		return "", fmt.Errorf("building %s: %v: %s", tool, err, oneLine(string(out)))
	}
	return bin, nil
}

// toolRun: outcome "started" / "refused", plus a description of the invocation.
func toolRun(tp *sym.Tape, viaEnv bool) (string, string, error) {
	tool := toolOf[tp.Harness]
	if tool == "" {
		return "", "", fmt.Errorf("unknown tool harness %s", tp.Harness)
	}
	bin, err := toolBuild(tool)
	if err != nil {
		return "", "", err
	}
	val := map[string]uint64{}
	for _, v := range tp.Values {
		val[v.Label] = v.Val
	}
	var args, env []string
	boolFlag := func(name string) {
		if val["flag_"+name] == 0 {
			return
		}
		if e := toolEnvName[name]; viaEnv && e != "" {
			env = append(env, e+"=true")
		} else {
			args = append(args, "--"+name)
		}
	}
	strFlag := func(name, value string) {
		if e := toolEnvName[name]; viaEnv && e != "" && value != "" {
			env = append(env, e+"="+value)
		} else {
			args = append(args, "--"+name, value)
		}
	}
	boolFlag("dtls")
	boolFlag("self-signed")
	boolFlag("insecure")
	port := fmt.Sprint(20000 + os.Getpid()%20000)
	switch tool {
	case "bisquitt":
		boolFlag("auth")
		args = append(args, "--port", port, "--host", "127.0.0.1")
	default:
		if val["flag_user"] != 0 {
			if val["user_empty"] != 0 {
				strFlag("user", "")
			} else {
				strFlag("user", "u")
			}
		}
		if val["flag_password"] != 0 {
			strFlag("password", "p")
		}
		args = append(args, "--client-id", "c", "--topic", "ab", "--port", port)
		if tool == "bisquitt-pub" {
			args = append(args, "--message", "m")
		}
	}
	if val["flag_predefined-topics-file"] != 0 {
		f := filepath.Join(verifDir, "build", "tools", "topics.yaml")
		os.WriteFile(f, []byte("c:\n  7: file/x\n  9: file/y\n"), 0o644)
		args = append(args, "--predefined-topics-file", f)
	}
	if val["flag_predefined-topic"] != 0 {
		args = append(args, "--predefined-topic", "c;opt/x;9")
	}
	if tool != "bisquitt" {
		// something to talk to: a UDP sink on the port, so that the client tools
		// block in their first exchange instead of failing on an ICMP error
		if pc, err := net.ListenPacket("udp", "127.0.0.1:"+port); err == nil {
			defer pc.Close()
		}
	}
	cmd := exec.Command(bin, args...)
	cmd.Env = append([]string{"PATH=" + os.Getenv("PATH"), "HOME=" + os.Getenv("HOME")}, env...)
	var out bytes.Buffer
	cmd.Stdout, cmd.Stderr = &out, &out
	if err := cmd.Start(); err != nil {
		return "", "", err
	}
	done := make(chan error, 1)
	go func() { done <- cmd.Wait() }()
	desc := fmt.Sprintf("%s %s env=%v", tool, strings.Join(args, " "), env)
	select {
	case <-done:
		// exited by itself within the window: it refused (printed the reason, status 1)
		if cmd.ProcessState != nil && cmd.ProcessState.ExitCode() != 0 {
			if networkErr.MatchString(out.String()) {
				return "started", desc + " -> failed in its first network step: " + oneLine(out.String()), nil
			}
			return "refused", desc + " -> " + oneLine(out.String()), nil
		}
		return "started", desc + " -> exited 0: " + oneLine(out.String()), nil
	case <-time.After(2 * time.Second):
		cmd.Process.Kill()
		<-done
		return "started", desc + " -> still running after 2 s (network step reached)", nil
	}
}

// toolValidate: differential validation for tool harness tapes: the engine's
// concrete run says whether the tool started; the real binary must agree.
func toolValidate(w *sym.Worker, e *sym.Engine, pkg string, tp *sym.Tape, idx int) (bool, string) {
	fn := e.Func(modPath+"/"+pkg, tp.Harness)
	cr := w.ExploreConcrete(fn, tp)
	es := cr.Summary()
	engineStarted := strings.Contains(es, "started=1")
	outcome, desc, err := toolRun(tp, idx%2 == 1)
	if err != nil {
		return false, "tool run failed: " + oneLine(err.Error())
	}
	if (outcome == "started") != engineStarted {
		return false, fmt.Sprintf("%s: engine{%s} real tool: %s (%s)", tp.Harness, es, outcome, desc)
	}
	return true, ""
}

// toolConfirm: a counterexample of a tool harness is confirmed when (a) the
// engine's concrete re-execution of the real handleAction closure on the tape
// fails the same assertion and (b) the real binary, run with the flags the
// tape stands for, starts / refuses exactly as the engine says.
func toolConfirm(rr *runResult, pkg string, tp *sym.Tape, label string) (bool, string) {
	w, err := sym.NewWorker(rr.engine, sym.Options{Solver: "z3", LoopBound: 1 << 20, MaxSteps: 50000000, AssertPrefix: rr.spec.ID + "."})
	if err != nil {
		return false, "cannot start worker: " + err.Error()
	}
	defer w.Close()
	fn := rr.engine.Func(modPath+"/"+pkg, tp.Harness)
	cr := w.ExploreConcrete(fn, tp)
	if !contains(cr.Failed, label) {
		return false, "concrete re-execution does not fail " + label + ": " + cr.Summary()
	}
	engineStarted := strings.Contains(cr.Summary(), "started=1")
	outcome, desc, err := toolRun(tp, false)
	if err != nil {
		return false, "tool run failed: " + oneLine(err.Error())
	}
	if (outcome == "started") != engineStarted {
		return false, fmt.Sprintf("engine says started=%v, real tool: %s (%s)", engineStarted, outcome, desc)
	}
	return true, fmt.Sprintf("%s fails on concrete re-execution of the real handleAction; real tool %s: %s", label, outcome, desc)
}

// engineConfirm: counterexample of an engine-only harness: concrete
// re-execution of the real code (with the spec's substitutions) on the tape.
func engineConfirm(rr *runResult, pkg string, tp *sym.Tape, label string) (bool, string) {
	w, err := sym.NewWorker(rr.engine, sym.Options{Solver: "z3", LoopBound: 1 << 20, MaxSteps: 50000000, AssertPrefix: rr.spec.ID + "."})
	if err != nil {
		return false, "cannot start worker: " + err.Error()
	}
	defer w.Close()
	fn := rr.engine.Func(modPath+"/"+pkg, tp.Harness)
	cr := w.ExploreConcrete(fn, tp)
	if !contains(cr.Failed, label) {
		return false, "concrete re-execution does not fail " + label + ": " + cr.Summary()
	}
	return true, label + " fails on concrete re-execution of the real code in the engine (harness uses substituted functions: no native run)"
}
