package main

import (
	"encoding/json"
	"fmt"
	"os"
	"path/filepath"
	"strings"

	"verif/engine/sym"
)

// cmdReplay replays one counterexample tape natively: vcheck replay <tape.json>
func cmdReplay(args []string) {
	if len(args) < 1 {
		fmt.Fprintln(os.Stderr, "usage: vcheck replay <tape.json>")
		os.Exit(2)
	}
	path, _ := filepath.Abs(args[0])
	b, err := os.ReadFile(path)
	if err != nil {
		fmt.Println("cannot read tape:", err)
		os.Exit(2)
	}
	var tp sym.Tape
	if err := json.Unmarshal(b, &tp); err != nil {
		fmt.Println("bad tape:", err)
		os.Exit(2)
	}
	// property: .../replays/<ID>/<file>
	id := filepath.Base(filepath.Dir(path))
	spec := specs[id]
	if spec == nil {
		fmt.Println("no check registered for", id)
		os.Exit(2)
	}
	pkg := ""
	insts := spec.Quick()
	if spec.Thor != nil {
		insts = append(insts, spec.Thor()...)
	}
	for _, in := range insts {
		if in.Fn == tp.Harness {
			pkg = in.Pkg
			break
		}
	}
	if pkg == "" {
		fmt.Println("harness", tp.Harness, "is not part of check", id)
		os.Exit(2)
	}
	ov, err := overlayFor(spec.Pkgs)
	if err != nil {
		fmt.Println("overlay:", err)
		os.Exit(2)
	}
	pats := spec.Load
	if len(pats) == 0 {
		for _, p := range spec.Pkgs {
			pats = append(pats, "./"+p)
		}
	}
	e, err := sym.Load(repoDir, ov, pats...)
	if err != nil {
		fmt.Println("harness does not load against the current tree:", oneLine(err.Error()))
		os.Exit(2)
	}
	if contains(spec.EngineOnly, tp.Harness) {
		for from, to := range spec.Subst {
			if err := e.AddSubst(from, to); err != nil {
				fmt.Println("substitution:", err)
				os.Exit(2)
			}
		}
		ok, note := engineConfirm(&runResult{spec: spec, engine: e}, pkg, &tp, tp.Assert)
		fmt.Printf("replay %s: harness=%s %s\n", filepath.Base(path), tp.Harness, note)
		if ok {
			fmt.Printf("VIOLATION property=%s replay=%s\n", id, path)
			os.Exit(1)
		}
		fmt.Println("the tape no longer violates", tp.Assert, "on the current tree")
		return
	}
	if isToolHarness(tp.Harness) {
		for from, to := range spec.Subst {
			if err := e.AddSubst(from, to); err != nil {
				fmt.Println("substitution:", err)
				os.Exit(2)
			}
		}
		ok, note := toolConfirm(&runResult{spec: spec, engine: e}, pkg, &tp, tp.Assert)
		fmt.Printf("replay %s: harness=%s %s\n", filepath.Base(path), tp.Harness, note)
		if ok {
			fmt.Printf("VIOLATION property=%s replay=%s\n", id, path)
			os.Exit(1)
		}
		fmt.Println("the tape no longer violates", tp.Assert, "on the current tree")
		return
	}
	rep, err := nativeReplay(e, spec, pkg, []string{path}, 3)
	if err != nil {
		fmt.Println("native replay failed to run:", oneLine(err.Error()))
		os.Exit(2)
	}
	r := rep[0]
	fmt.Printf("replay %s: harness=%s args=%v status=%s failed assertions=%v\n", filepath.Base(path), tp.Harness, tp.Args, r.Status, r.Failures)
	if os.Getenv("VDEBUG") != "" {
		for _, o := range r.Obs {
			fmt.Println("  obs:", o)
		}
	}
	hit := contains(r.Failures, tp.Assert) || r.Status == "crashed-before-output" || strings.HasPrefix(r.Status, "panic")
	if hit {
		fmt.Printf("VIOLATION property=%s replay=%s\n", id, path)
		os.Exit(1)
	}
	fmt.Println("the tape no longer violates", tp.Assert, "on the current tree")
}

// targetDir: harness directory -> directory of the repository package it is overlaid on.
func targetDir(d string) string {
	if d == "root" {
		return "."
	}
	return d
}
