package main

func clEventInsts(full bool) []Inst {
	var out []Inst
	evs := gwSNEvents(full)
	for su := int64(0); su <= 15; su++ {
		for _, e := range gwOnePerKind(evs, full) {
			out = append(out, Inst{Pkg: "client", Fn: "VH_CL_event", Args: []int64{su, e.kind, e.arg}, LoopBound: 400})
		}
	}
	return out
}

func clAPIInsts(full bool) []Inst {
	var out []Inst
	lens := []int64{0, 1, 2, 3, 250, 7168}
	if full {
		lens = cat(rng(0, 8), rng(245, 258), []int64{1024, 7168})
	}
	for k := int64(0); k <= 10; k++ {
		ls := lens
		if k == 0 || k == 3 || k == 7 || k >= 8 {
			ls = []int64{0, 1, 2, 3}
		}
		for _, n := range ls {
			out = append(out, Inst{Pkg: "client", Fn: "VH_CL_api", Args: []int64{k, n}, LoopBound: 400})
		}
	}
	return out
}

func c23Insts(full bool) []Inst {
	tier := "quick"
	if full {
		tier = "thorough"
	}
	out := gwInsts(tier)
	out = append(out, clEventInsts(full)...)
	out = append(out, clAPIInsts(full)...)
	for _, pl := range []int64{0, 7168, 8183, 8184, 8190, 65527} {
		out = append(out, inst("gateway", "VH_C23_bigpub", pl, 2))
	}
	for _, tl := range []int64{3, 300, 8184, 8185} {
		out = append(out, inst("gateway", "VH_C23_bigpub", 1, tl))
	}
	out = append(out, inst("packets1", "VH_C23_size_arith"))
	return out
}

func init() {
	reg(&Spec{
		ID: "C23", Pkgs: []string{"gateway", "util", "client", "packets1"}, LoopBound: 400,
		Quick: func() []Inst { return c23Insts(false) }, Thor: func() []Inst { return c23Insts(true) },
		Asserts: []string{"C23.gw_decodes", "C23.gw_direction", "C23.gw_length_field", "C23.gw_size", "C23.cl_decodes", "C23.cl_direction", "C23.cl_length_field", "C23.cl_size",
			"C23.big_size", "C23.big_length_field", "C23.arith_length_field", "C23.arith_size", "C23.arith_register_length_field", "C23.arith_register_size"},
		Reach: []string{"C23.big_sent", "C23.cl_api_called"},
		Bounds: map[string]string{
			"gateway": "every datagram written in every step of the gateway world harness (see C24 for events/set-ups)",
			"client":  "every datagram the client library writes: 16 set-ups (each API call in flight, sleep phases, incoming QoS 2) x every gateway packet type with symbolic body, followed by the retry timers; every API entry point with symbolic arguments (names/payloads of 0..3, 250, 7168 bytes; thorough 0..8, 245..258, 1024, 7168)",
			"sizes":   "broker PUBLISH with 0, 7168, 8183, 8184, 8190, 65527 payload bytes and REGISTER for names of 3, 300, 8184, 8185 bytes through the real handler (all bytes symbolic); PUBLISH/REGISTER size arithmetic with the length symbolic over 0..70000",
		},
		Outside: []string{"MQTT payloads above 70000 bytes (MQTT allows 256 MB; the arithmetic harness shows the failure region starts at 8184)"},
	})
	reg(&Spec{
		ID: "C25", Pkgs: []string{"gateway", "util", "client"}, LoopBound: 400,
		Quick: func() []Inst { return append(gwInsts("quick"), clEventInsts(false)...) },
		Thor:  func() []Inst { return append(gwInsts("thorough"), clEventInsts(true)...) },
		Asserts: []string{"C25.gw_nopanic", "C25.cl_nopanic"},
		Reach:   []string{"C25.cl_event_delivered"},
		Bounds: map[string]string{
			"gateway": "every event of the gateway world harness (every decodable client packet, every broker packet type incl. client-only ones, timer expiry) from an arbitrary pre-state and after 18 set-ups",
			"client":  "the real receive loop + handlePacket: 16 set-ups x every MQTT-SN packet type (symbolic body, min..min+3 bytes) from the gateway, then the retry timers until they run out; a panic of any goroutine of the client counts",
		},
		Outside: []string{"panics inside logging / String()", "paho's decoding of hostile broker bytes", "races between two goroutines that need pre-emption inside a handler step (L3)", "memory exhaustion"},
	})
}
