package main

func clEventInsts(full bool) []Inst {
	var out []Inst
	evs := gwSNEvents(full)
	for su := int64(0); su <= 15; su++ {
		for _, e := range gwOnePerKind(evs, full) {
			out = append(out, Inst{Pkg: "client", Fn: "VH_CL_event", Args: []int64{su, e.kind, e.arg}, LoopBound: 400})
		}
	}
	return out
}

func clAPIInsts(full bool) []Inst {
	var out []Inst
	lens := []int64{0, 1, 2, 3, 250, 7168}
	if full {
		lens = cat(rng(0, 8), rng(245, 258), []int64{1024, 7168})
	}
	for k := int64(0); k <= 10; k++ {
		ls := lens
		if k == 0 || k == 3 || k == 7 || k >= 8 {
			ls = []int64{0, 1, 2, 3}
		}
		for _, n := range ls {
			out = append(out, Inst{Pkg: "client", Fn: "VH_CL_api", Args: []int64{k, n}, LoopBound: 400})
		}
	}
	return out
}

func c23Insts(full bool) []Inst {
	tier := "quick"
	if full {
		tier = "thorough"
	}
	out := gwInsts(tier)
	out = append(out, clEventInsts(full)...)
	out = append(out, clAPIInsts(full)...)
	for _, pl := range []int64{0, 7168, 8183, 8184, 8190, 65527} {
		out = append(out, inst("gateway", "VH_C23_bigpub", pl, 2))
	}
	for _, tl := range []int64{3, 300, 8184, 8185} {
		out = append(out, inst("gateway", "VH_C23_bigpub", 1, tl))
	}
	out = append(out, inst("packets1", "VH_C23_size_arith"))
	return out
}

func init() {
	reg(&Spec{
		ID: "C23", Pkgs: []string{"gateway", "util", "client", "packets1"}, LoopBound: 400,
		Quick: func() []Inst { return c23Insts(false) }, Thor: func() []Inst { return c23Insts(true) },
		Asserts: []string{"C23.gw_decodes", "C23.gw_direction", "C23.gw_length_field", "C23.gw_size", "C23.cl_decodes", "C23.cl_direction", "C23.cl_length_field", "C23.cl_size",
			"C23.big_size", "C23.big_length_field", "C23.arith_length_field", "C23.arith_size", "C23.arith_register_length_field", "C23.arith_register_size"},
		Reach: []string{"C23.big_sent", "C23.cl_api_called"},
		Bounds: map[string]string{
			"gateway": "every datagram written in every step of the gateway world harness (see C24 for events/set-ups)",
			"client":  "every datagram the client library writes: 16 set-ups (each API call in flight, sleep phases, incoming QoS 2) x every gateway packet type with symbolic body, followed by the retry timers; every API entry point with symbolic arguments (names/payloads of 0..3, 250, 7168 bytes; thorough 0..8, 245..258, 1024, 7168)",
			"sizes":   "broker PUBLISH with 0, 7168, 8183, 8184, 8190, 65527 payload bytes and REGISTER for names of 3, 300, 8184, 8185 bytes through the real handler (all bytes symbolic); PUBLISH/REGISTER size arithmetic with the length symbolic over 0..70000",
		},
		Outside: []string{"MQTT payloads above 70000 bytes (MQTT allows 256 MB; the arithmetic harness shows the failure region starts at 8184)"},
	})
	reg(&Spec{
		ID: "C25", Pkgs: []string{"gateway", "util", "client"}, LoopBound: 400,
		Quick: func() []Inst { return append(gwInsts("quick"), clEventInsts(false)...) },
		Thor:  func() []Inst { return append(gwInsts("thorough"), clEventInsts(true)...) },
		Asserts: []string{"C25.gw_nopanic", "C25.cl_nopanic"},
		Reach:   []string{"C25.cl_event_delivered"},
		Bounds: map[string]string{
			"gateway": "every event of the gateway world harness (every decodable client packet, every broker packet type incl. client-only ones, timer expiry) from an arbitrary pre-state and after 18 set-ups",
			"client":  "the real receive loop + handlePacket: 16 set-ups x every MQTT-SN packet type (symbolic body, min..min+3 bytes) from the gateway, then the retry timers until they run out; a panic of any goroutine of the client counts",
		},
		Outside: []string{"panics inside logging / String()", "paho's decoding of hostile broker bytes", "races between two goroutines that need pre-emption inside a handler step (L3)", "memory exhaustion"},
	})
}

// shapes of 1..maxLevels levels with level lengths 0..2
func c27Shapes(maxLevels int64) [][2]int64 {
	var out [][2]int64
	pow := int64(1)
	for n := int64(1); n <= maxLevels; n++ {
		pow *= 3
		for s := int64(0); s < pow; s++ {
			out = append(out, [2]int64{n, s})
		}
	}
	return out
}

func c27Insts(full bool) []Inst {
	var out []Inst
	ml := int64(2)
	if full {
		ml = 3
	}
	sh := c27Shapes(ml)
	for _, f := range sh {
		for _, t := range sh {
			out = append(out, inst("client", "VH_C27_match", f[0], f[1], t[0], t[1]))
		}
	}
	// dispatch: a selection of filter/topic shapes (levels of 1 byte)
	one := func(n int64) int64 { return map[int64]int64{1: 1, 2: 4, 3: 13}[n] }
	for _, fa := range []int64{1, 2} {
		for _, fb := range []int64{1, 2} {
			for _, tn := range []int64{2, 3} {
				for mode := int64(0); mode <= 3; mode++ {
					out = append(out, Inst{Pkg: "client", Fn: "VH_C27_dispatch", Args: []int64{fa, one(fa), fb, one(fb), tn, one(tn), mode}, LoopBound: 400})
				}
			}
		}
	}
	return out
}

func init() {
	reg(&Spec{
		ID: "C27", Pkgs: []string{"client"}, LoopBound: 400,
		Quick: func() []Inst { return c27Insts(false) }, Thor: func() []Inst { return c27Insts(true) },
		Asserts: []string{"C27.match_agrees_with_reference", "C27.at_most_one_callback", "C27.invoked_filter_matches", "C27.matching_subscription_is_invoked", "C27.qos2_not_before_pubrel"},
		Reach:   []string{"C27.matching_pair", "C27.non_matching_pair", "C27.delivered", "C27.not_delivered"},
		Bounds: map[string]string{
			"matcher":  "real strings.Split + match against a reference matcher written from MQTT 3.1.1 section 4.7, for every valid filter and every topic name of 1..2 levels (thorough 1..3) whose level strings have 0..2 symbolic bytes (any byte but '/'; empty levels, trailing '/', '#' at parent level included)",
			"dispatch": "two subscriptions completed through the real Subscribe/SUBACK code (filters of 1..2 one-byte levels, symbolic), optionally Unsubscribe + UNSUBACK of the first, then REGISTER + PUBLISH (QoS 0 / 1 / 2 + PUBREL; also with the Unsubscribe completing between the QoS 2 PUBLISH and its PUBREL) on a topic of 2..3 levels through the real receive loop; callbacks are distinct counters; sync.Map iteration order nondeterministic",
		},
		Outside: []string{"'$'-topics (not named by the property)", "more than two subscriptions", "levels longer than 2 bytes"},
	})
}

func c17Insts(maxrc int64) []Inst {
	var out []Inst
	for rc := int64(0); rc <= maxrc; rc++ {
		out = append(out, Inst{Pkg: "client", Fn: "VH_C17_publish", Args: []int64{1, rc}, LoopBound: 400}, Inst{Pkg: "client", Fn: "VH_C17_publish", Args: []int64{2, rc}, LoopBound: 400},
			Inst{Pkg: "client", Fn: "VH_C17_subscribe", Args: []int64{rc}, LoopBound: 400})
	}
	out = append(out, Inst{Pkg: "client", Fn: "VH_C17_pubrel", Args: []int64{1}, LoopBound: 400}, Inst{Pkg: "client", Fn: "VH_C17_pubrel", Args: []int64{2}, LoopBound: 400},
		Inst{Pkg: "client", Fn: "VH_C17_pubrel_two", LoopBound: 400})
	return out
}

func init() {
	reg(&Spec{
		ID: "C17", Pkgs: []string{"client"}, LoopBound: 400, ValidateN: 6,
		Quick: func() []Inst { return c17Insts(1) }, Thor: func() []Inst { return c17Insts(2) },
		Asserts: []string{"C17.publish_sent", "C17.first_publish_not_dup", "C17.one_retransmission_per_timeout", "C17.retransmission_same_id", "C17.retransmission_has_dup", "C17.retransmission_same_content",
			"C17.no_retransmission_beyond_budget", "C17.pubrec_answered_with_pubrel", "C17.pubrel_same_id", "C17.publish_returns", "C17.nil_iff_acknowledged", "C17.subscribe_fails_after_budget",
			"C17.publish_qos2_gets_pubrec", "C17.pubrel_answered", "C17.repeated_pubrel_answered"},
		Reach: []string{"C17.retransmission", "C17.acked", "C17.not_acked", "C17.repeated_pubrel", "C17.repeated_pubrel_after_other_exchange"},
		Bounds: map[string]string{
			"publish":   "Client.Publish QoS 1 and 2 on a short topic, 2 symbolic payload bytes, RetryCount 0..1 (thorough 0..2), RetryDelay symbolic; for each datagram the gateway answers once, answers twice, or stays silent until the retry timer fires (symbolic choice per step, up to 2*(RetryCount+2) steps)",
			"subscribe": "Subscribe with a silent gateway: RetryCount retransmissions then failure",
			"pubrel":    "incoming QoS 2 PUBLISH, then 2..3 PUBRELs with the same message ID (symbolic); two incoming QoS 2 exchanges with distinct symbolic message IDs, sequential or interleaved, both finished, then the PUBREL of each retransmitted in either order and the first once more",
		},
		Outside: []string{"register / unsubscribe flows (no DUP flag in those packets)", "real-time slack"},
	})
}

func c28Insts(full bool) []Inst {
	var out []Inst
	rcs := []int64{0, 1}
	if full {
		rcs = []int64{0, 1, 2}
	}
	for kind := int64(0); kind <= 8; kind++ {
		for _, rc := range rcs {
			out = append(out, Inst{Pkg: "client", Fn: "VH_C28_return", Args: []int64{kind, rc, 0, 0}, LoopBound: 2000})
			out = append(out, Inst{Pkg: "client", Fn: "VH_C28_return", Args: []int64{kind, rc, 2, 0}, LoopBound: 2000})
		}
		for _, t := range snTypes {
			if !full && (t == 0x00 || t == 0x01 || t == 0x02 || t == 0x1A || t == 0x1C || t == 0x03) {
				continue
			}
			out = append(out, Inst{Pkg: "client", Fn: "VH_C28_return", Args: []int64{kind, 1, 1, t}, LoopBound: 2000})
		}
	}
	// Sleep from the awake state (kind 9): silent gateway, DISCONNECT, and a few unsolicited packets
	out = append(out, Inst{Pkg: "client", Fn: "VH_C28_return", Args: []int64{9, 1, 0, 0}, LoopBound: 2000}, Inst{Pkg: "client", Fn: "VH_C28_return", Args: []int64{9, 1, 2, 0}, LoopBound: 2000})
	k9 := []int64{0x17, 0x05}
	if full {
		k9 = []int64{0x17, 0x05, 0x16, 0x0B, 0x0D, 0x13, 0x0A}
	}
	for _, t := range k9 {
		out = append(out, Inst{Pkg: "client", Fn: "VH_C28_return", Args: []int64{9, 1, 1, t}, LoopBound: 2000})
	}
	return out
}

func init() {
	reg(&Spec{
		ID: "C28", Pkgs: []string{"client"}, LoopBound: 2000, ValidateN: 5,
		Quick: func() []Inst { return c28Insts(false) }, Thor: func() []Inst { return c28Insts(true) },
		Asserts: []string{"C28.call_returns_within_bound", "C28.close_returns", "C28.no_goroutine_left"},
		Reach:   []string{"C28.waited"},
		Bounds: map[string]string{
			"calls":     "Connect, Register, Subscribe, Publish QoS 1 and 2, Unsubscribe, Ping, Sleep(2 s), Disconnect, Sleep(2 s) again after a completed sleep cycle (from the awake state, the gateway misbehaving at a symbolic instant of the sleep) - one call per instance, on the real client with its real receive loop; RetryCount 0..1 (thorough 0..2); RetryDelay and ConnectTimeout symbolic in (0, 1 s); KeepAlive 0 (the keep-alive loop is C33's subject)",
			"gateway":   "silent forever; one unsolicited packet of any type with a symbolic body (min..min+2 bytes), then silent; DISCONNECT",
			"bound":     "ConnectTimeout x (RetryCount+1) for Connect; RetryDelay x (RetryCount+1) otherwise; plus the sleep duration and the library's fixed one-minute PINGRESP wait for Sleep; + 50 ms",
			"shutdown":  "Close() afterwards; after all timers have fired no task spawned by the client is alive",
		},
		Outside: []string{"two API calls in flight at once", "real-time slack"},
	})
}

func init() {
	reg(&Spec{
		ID: "C33", Pkgs: []string{"client"}, LoopBound: 2000, ValidateN: 4,
		Quick: func() []Inst {
			var out []Inst
			for a := int64(0); a <= 1; a++ {
				out = append(out, Inst{Pkg: "client", Fn: "VH_C33_active", Args: []int64{a}}, Inst{Pkg: "client", Fn: "VH_C33_sleep", Args: []int64{a}}, Inst{Pkg: "client", Fn: "VH_C33_disconnect", Args: []int64{a}})
			}
			out = append(out, Inst{Pkg: "client", Fn: "VH_C33_sleep", Args: []int64{2}}, Inst{Pkg: "client", Fn: "VH_C33_awake"})
			return out
		},
		Asserts: []string{"C33.pings_while_active", "C33.ping_at_least_every_keepalive", "C33.sleep_takes_effect", "C33.no_keepalive_ping_while_asleep", "C33.sleep_not_failed_by_keepalive", "C33.disconnect_not_failed_by_keepalive", "C33.no_keepalive_ping_after_disconnect", "C33.not_active_before_pingresp", "C33.no_keepalive_ping_while_awake"},
		Reach:   []string{"C33.active_done", "C33.slept", "C33.disconnected", "C33.slow_awake_done"},
		Bounds: map[string]string{
			"client":    "real Dial with KeepAlive = 2 s: real keepaliveLoop (time.Ticker model), receive loop, transactions; RetryCount 1, RetryDelay symbolic in (0, 1 s)",
			"scenarios": "idle for 3.5 keep-alive periods with the gateway answering every ping / none; Sleep(3 s) or Disconnect at a symbolic instant within the first 2.5 periods, with keep-alive pings answered or left in flight; a sleep cycle whose wake-up PINGREQ is answered only after a symbolic delay of 50 ms .. 2.5 keep-alive periods (no keep-alive ping while asleep or awake, Sleep then returns nil)",
		},
		Outside: []string{"other API calls racing with the keep-alive (Publish, Subscribe)", "pre-emptive interleavings inside Ping/Sleep", "real-time slack"},
	})
}
