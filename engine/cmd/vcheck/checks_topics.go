package main

func c05big(a, b, c int64) Inst {
	return Inst{Pkg: "topics", Fn: "VH_C05_lookup", Args: []int64{a, b, c}, MaxPaths: 400000}
}

func init() {
	reg(&Spec{
		ID:   "C05",
		Pkgs: []string{"topics"},
		Quick: func() []Inst {
			return []Inst{
				inst("topics", "VH_C05_lookup", 1, 1, 2), inst("topics", "VH_C05_lookup", 2, 1, 1), inst("topics", "VH_C05_lookup", 1, 2, 1),
				inst("topics", "VH_C05_lookup", 2, 2, 1), inst("topics", "VH_C05_lookup", 0, 2, 2), inst("topics", "VH_C05_lookup", 2, 0, 2),
				inst("topics", "VH_C05_wildcard_client", 2, 2),
			}
		},
		Thor: func() []Inst {
			return []Inst{
				c05big(1, 1, 3), c05big(2, 2, 2), c05big(3, 2, 1),
				c05big(2, 3, 1), c05big(0, 3, 2),
				c05big(3, 0, 2), inst("topics", "VH_C05_wildcard_client", 3, 2),
			}
		},
		Asserts: []string{"C05.precedence_found", "C05.precedence", "C05.roundtrip"},
		Reach:   []string{"C05.name_found", "C05.id_found"},
		Bounds: map[string]string{
			"configuration": "up to 2 client-specific + 2 '*' entries (thorough 3+2 and 2+3; 3+3 exceeds the path budget); every topic ID a symbolic uint16 (equal IDs within and across tables included), every name a symbolic string of length 0..2 (0..1 for the largest tables; thorough up to 3)",
			"client id":     "one symbolic byte != '*', and the literal client '*'",
			"map order":     "every iteration order of the Go maps is explored (nondeterministic choice per range step)",
		},
		Outside: []string{"larger tables; longer names (the code compares names as whole strings, never by prefix)"},
	})
}
