package topics

// C05: predefined topic lookups are mutually consistent.

type vEntry struct {
	id   uint16
	name string
}

// vPredef builds a configuration with nc client-specific entries (for client
// cid) and nw "*" entries; every ID is a symbolic uint16 and every name a
// symbolic string whose length is chosen in 0..maxName. The same data is
// returned as plain arrays for the reference functions. Later entries with an
// equal ID overwrite earlier ones (map semantics), which the reference mirrors.
func vPredef(cid string, nc, nw, maxName int) (PredefinedTopics, []vEntry, []vEntry) {
	p := PredefinedTopics{}
	var ce, we []vEntry
	for i := 0; i < nc; i++ {
		e := vEntry{vNondetU16("cid_id"), vNondetString("cid_name", vChoose(maxName+1))}
		p.Add(cid, e.name, e.id)
		ce = append(ce, e)
	}
	for i := 0; i < nw; i++ {
		e := vEntry{vNondetU16("all_id"), vNondetString("all_name", vChoose(maxName+1))}
		p.Add("*", e.name, e.id)
		we = append(we, e)
	}
	return p, ce, we
}

// vRefLookup: last entry with that id wins (entries were Add-ed in order).
func vRefLookup(es []vEntry, id uint16) (string, bool) {
	name, found := "", false
	for _, e := range es {
		if e.id == id {
			name, found = e.name, true
		}
	}
	return name, found
}

// vRefName: the client-specific entry when one exists, otherwise the "*" entry.
func vRefName(cidIsAll bool, ce, we []vEntry, id uint16) (string, bool) {
	if cidIsAll {
		// client "*" sees the "*" table through both lookups; its own entries are the "*" entries
		all := append(append([]vEntry{}, we...), ce...)
		_ = all
	}
	if n, ok := vRefLookup(ce, id); ok {
		return n, true
	}
	return vRefLookup(we, id)
}

// VH_C05_lookup(nc, nw, maxName): client "c" (one symbolic byte) with nc own and nw "*" entries.
func VH_C05_lookup(nc, nw, maxName int) {
	cid := vNondetString("clientid", 1)
	vAssume(cid != "*")
	p, ce, we := vPredef(cid, nc, nw, maxName)

	// (i) name by ID: client entry first, else "*" entry, else not found
	q := vNondetU16("query_id")
	got, found := p.GetTopicName(cid, q)
	want, wfound := vRefName(false, ce, we, q)
	vAssert(found == wfound, "C05.precedence_found")
	if found && wfound {
		vReach("C05.name_found")
		vAssert(got == want, "C05.precedence")
	}

	// (ii) ID by name returns only IDs that map back to that name for that client
	name := vNondetString("query_name", vChoose(maxName+1))
	id, ok := p.GetTopicID(cid, name)
	if ok {
		vReach("C05.id_found")
		back, ok2 := p.GetTopicName(cid, id)
		vLabel("shadowed", vB2U(vShadowed(ce, we, id)))
		vAssert(vAnd(ok2, back == name), "C05.roundtrip")
	}
}

func vB2U(b bool) uint64 {
	if b {
		return 1
	}
	return 0
}

// vShadowed: id is defined by both a client entry and a "*" entry.
func vShadowed(ce, we []vEntry, id uint16) bool {
	_, a := vRefLookup(ce, id)
	_, b := vRefLookup(we, id)
	return vAnd(a, b)
}

// VH_C05_wildcard_client(nw, maxName): a client whose ID is literally "*".
func VH_C05_wildcard_client(nw, maxName int) {
	p, _, we := vPredef("*", 0, nw, maxName)
	q := vNondetU16("query_id")
	got, found := p.GetTopicName("*", q)
	want, wfound := vRefLookup(we, q)
	vAssert(found == wfound, "C05.precedence_found")
	if found && wfound {
		vAssert(got == want, "C05.precedence")
	}
	name := vNondetString("query_name", vChoose(maxName+1))
	id, ok := p.GetTopicID("*", name)
	if ok {
		back, ok2 := p.GetTopicName("*", id)
		vAssert(vAnd(ok2, back == name), "C05.roundtrip")
	}
}
