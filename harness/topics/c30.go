package topics

// C30 (semantic part): the mapping a tool uses is the file's, overridden entry
// by entry by the options, later options overriding earlier ones, entries
// without a client ID applying to every client ("*").

type vOpt struct {
	hasCID bool
	cid    string
	name   string
	id     uint16
}

// vOption builds one --predefined-topic option string from symbolic parts:
// [cid;]name;id with a 1-byte client ID, a 1-byte name (neither contains ';')
// and a one-digit ID.
func vOption() (string, vOpt) {
	o := vOpt{hasCID: vNondetBool("opt_has_cid")}
	o.name = vNondetString("opt_name", 1)
	vAssume(o.name[0] != ';')
	d := vNondetU8("opt_digit")
	vAssume(vAnd(d >= '0', d <= '9'))
	o.id = uint16(d - '0')
	s := o.name + ";" + string([]byte{d})
	if o.hasCID {
		o.cid = vNondetString("opt_cid", 1)
		vAssume(o.cid[0] != ';')
		s = o.cid + ";" + s
	} else {
		o.cid = "*"
	}
	return s, o
}

// VH_C30_merge(nfile, nopts): file map with nfile entries (client IDs from
// {"a", "*"} chosen symbolically, IDs one symbolic digit, names 1 symbolic
// byte), then nopts options parsed by the real ParsePredefinedTopicOptions and
// merged by the real Merge; every lookup agrees with the reference.
func VH_C30_merge(nfile, nopts int) {
	file := PredefinedTopics{}
	type ent struct {
		cid  string
		id   uint16
		name string
	}
	var ref []ent // in application order: later entries override earlier ones
	for i := 0; i < nfile; i++ {
		cid := "*"
		if vNondetBool("file_cid_is_a") {
			cid = "a"
		}
		e := ent{cid, uint16(vNondetU8("file_id") % 10), vNondetString("file_name", 1)}
		file.Add(e.cid, e.name, e.id)
		ref = append(ref, e)
	}
	var optStrs []string
	for i := 0; i < nopts; i++ {
		s, o := vOption()
		optStrs = append(optStrs, s)
		ref = append(ref, ent{o.cid, o.id, o.name})
	}
	opts, err := ParsePredefinedTopicOptions(optStrs...)
	vAssert(err == nil, "C30.options_parse")
	if err != nil {
		return
	}
	file.Merge(opts)
	// query: any client ID among {"a", "*", the option's}, any ID 0..9
	qc := vNondetString("query_cid", 1)
	qid := uint16(vNondetU8("query_id") % 10)
	want, found := "", false
	for _, e := range ref {
		if vAnd(e.cid == qc, e.id == qid) {
			want, found = e.name, true
		}
	}
	m, hasClient := file[qc]
	got, ok := "", false
	if hasClient {
		got, ok = m[qid]
	}
	vAssert(ok == found, "C30.merge_entry_present")
	if ok && found {
		vReach("C30.entry_found")
		vAssert(got == want, "C30.merge_entry_value")
	}
}
