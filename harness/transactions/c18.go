package transactions

import (
	"context"
	"errors"
	"time"
)

// C18: a finished transaction stays finished. Event sequences over a
// transaction: each event is one of Success / Fail / Proceed / the next timer
// expiry / context cancellation (a symbolic choice per step). After Done has
// closed: Err never changes, the finally callback has run exactly once, the
// retry callback never runs again.

var vErrA = errors.New("error A")
var vErrB = errors.New("error B")

type vC18Obs struct {
	finals   int
	calls    int
	done     bool
	errAt    error
	callsAt  int
	finalsAt int
}

func (o *vC18Obs) observe(done <-chan struct{}, err func() error) {
	isDone := false
	select {
	case <-done:
		isDone = true
	default:
	}
	if isDone && !o.done {
		o.done, o.errAt, o.callsAt, o.finalsAt = true, err(), o.calls, o.finals
		vReach("C18.finished")
		vAssert(o.finals == 1, "C18.finally_ran_once_at_done")
		return
	}
	if o.done {
		vReach("C18.event_after_done")
		vAssert(isDone, "C18.done_stays_closed")
		vAssert(err() == o.errAt, "C18.err_stable_after_done")
		vAssert(o.finals == 1, "C18.finally_exactly_once")
		vAssert(o.calls == o.callsAt, "C18.no_retry_callback_after_done")
	}
}

// VH_C18_retry(n, rc, failAt): n events on a RetryTransaction (retryCount rc);
// the retry callback returns an error on its failAt-th invocation (0: never).
func VH_C18_retry(n, rc, failAt int) {
	o := &vC18Obs{}
	ctx, cancel := context.WithCancel(context.Background())
	d := vNondetDelay("delay")
	vAssume(vAnd(d > 0, d < 1<<40))
	var t *RetryTransaction
	t = NewRetryTransaction(ctx, time.Duration(d), uint(rc),
		func(data interface{}) error {
			o.calls++
			if o.calls == failAt {
				return vErrA
			}
			return nil
		},
		func() { o.finals++ })
	t.Proceed(1, "x")
	vRunUntilIdle()
	panicked := vPanics(func() {
		for i := 0; i < n; i++ {
			switch vChoose(5) {
			case 0:
				t.Success()
			case 1:
				t.Fail(vErrB)
			case 2:
				t.Proceed(2, "y")
			case 3:
				vAdvance()
			case 4:
				cancel()
			}
			vRunUntilIdle()
			o.observe(t.Done(), t.Err)
		}
		// whatever is still armed fires now
		for i := 0; i < rc+3; i++ {
			if !vAdvance() {
				break
			}
			o.observe(t.Done(), t.Err)
		}
	})
	vAssert(!panicked, "C18.no_panic")
	vReach("C18.retry_history_done")
}

// VH_C18_timed(n): n events on a TimedTransaction with a symbolic timeout (0 included).
func VH_C18_timed(n int) {
	o := &vC18Obs{}
	ctx, cancel := context.WithCancel(context.Background())
	d := vNondetDelay("timeout")
	vAssume(vAnd(d >= 0, d < 1<<40))
	var t *TimedTransaction
	panicked := vPanics(func() {
		t = NewTimedTransaction(ctx, time.Duration(d), func() { o.finals++ })
		vRunUntilIdle()
		for i := 0; i < n; i++ {
			switch vChoose(4) {
			case 0:
				t.Success()
			case 1:
				t.Fail(vErrB)
			case 2:
				vAdvance()
			case 3:
				cancel()
			}
			vRunUntilIdle()
			o.observe(t.Done(), t.Err)
		}
		for i := 0; i < 2; i++ {
			if !vAdvance() {
				break
			}
			o.observe(t.Done(), t.Err)
		}
	})
	vAssert(!panicked, "C18.no_panic")
	vReach("C18.timed_history_done")
}
