package transactions

import (
	"context"
	"errors"
	"time"
)

// C18: a finished transaction stays finished. Event sequences over a
// transaction: each event is one of Success / Fail / Proceed / the next timer
// expiry / context cancellation (a symbolic choice per step). After Done has
// closed: Err never changes, the finally callback has run exactly once, the
// retry callback never runs again.

var vErrA = errors.New("error A")
var vErrB = errors.New("error B")

type vC18Obs struct {
	finals   int
	calls    int
	done     bool
	errAt    error
	callsAt  int
	finalsAt int
}

func (o *vC18Obs) observe(done <-chan struct{}, err func() error) {
	isDone := false
	select {
	case <-done:
		isDone = true
	default:
	}
	if isDone && !o.done {
		o.done, o.errAt, o.callsAt, o.finalsAt = true, err(), o.calls, o.finals
		vReach("C18.finished")
		vAssert(o.finals == 1, "C18.finally_ran_once_at_done")
		return
	}
	if o.done {
		vReach("C18.event_after_done")
		vAssert(isDone, "C18.done_stays_closed")
		vAssert(err() == o.errAt, "C18.err_stable_after_done")
		vAssert(o.finals == 1, "C18.finally_exactly_once")
		vAssert(o.calls == o.callsAt, "C18.no_retry_callback_after_done")
	}
}

// VH_C18_retry(n, rc, failAt): n events on a RetryTransaction (retryCount rc);
// the retry callback returns an error on its failAt-th invocation (0: never).
func VH_C18_retry(n, rc, failAt int) {
	o := &vC18Obs{}
	ctx, cancel := context.WithCancel(context.Background())
	d := vNondetDelay("delay")
	vAssume(vAnd(d > 0, d < 1<<40))
	var t *RetryTransaction
	t = NewRetryTransaction(ctx, time.Duration(d), uint(rc),
		func(data interface{}) error {
			o.calls++
			if o.calls == failAt {
				return vErrA
			}
			return nil
		},
		func() { o.finals++ })
	t.Proceed(1, "x")
	vRunUntilIdle()
	panicked := vPanics(func() {
		for i := 0; i < n; i++ {
			switch vChoose(5) {
			case 0:
				t.Success()
			case 1:
				t.Fail(vErrB)
			case 2:
				t.Proceed(2, "y")
			case 3:
				vAdvance()
			case 4:
				cancel()
			}
			vRunUntilIdle()
			o.observe(t.Done(), t.Err)
		}
		// whatever is still armed fires now
		for i := 0; i < rc+3; i++ {
			if !vAdvance() {
				break
			}
			o.observe(t.Done(), t.Err)
		}
	})
	vAssert(!panicked, "C18.no_panic")
	vReach("C18.retry_history_done")
}

// VH_C18_timed(n): n events on a TimedTransaction with a symbolic timeout (0 included).
func VH_C18_timed(n int) {
	o := &vC18Obs{}
	ctx, cancel := context.WithCancel(context.Background())
	d := vNondetDelay("timeout")
	vAssume(vAnd(d >= 0, d < 1<<40))
	var t *TimedTransaction
	panicked := vPanics(func() {
		t = NewTimedTransaction(ctx, time.Duration(d), func() { o.finals++ })
		vRunUntilIdle()
		for i := 0; i < n; i++ {
			switch vChoose(4) {
			case 0:
				t.Success()
			case 1:
				t.Fail(vErrB)
			case 2:
				vAdvance()
			case 3:
				cancel()
			}
			vRunUntilIdle()
			o.observe(t.Done(), t.Err)
		}
		for i := 0; i < 2; i++ {
			if !vAdvance() {
				break
			}
			o.observe(t.Done(), t.Err)
		}
	})
	vAssert(!panicked, "C18.no_panic")
	vReach("C18.timed_history_done")
}

// VH_C18_race(bound): pre-emptive interleavings (context bound `bound`) of
// Success() on one goroutine with the retry timer's callback on another.
func VH_C18_race(bound int) {
	o := &vC18Obs{}
	var t *RetryTransaction
	t = NewRetryTransaction(context.Background(), time.Hour, 2,
		func(data interface{}) error {
			select {
			case <-t.Done():
				o.calls += 100 // a retry callback that starts after Done has closed
			default:
				o.calls++
			}
			return nil
		},
		func() { o.finals++ })
	t.Proceed(1, "x")
	vRunUntilIdle()
	vPreempt(bound)
	d1, d2 := false, false
	seen := -1
	vGo(func() { <-t.Done(); seen = o.finals }) // a waiter woken by Done
	vGo(func() { t.Success(); d1 = true })
	vGo(func() { t.timeout(); d2 = true })
	vRunUntilIdle()
	vPreempt(0)
	vAssume(vAnd(d1, d2))
	vReach("C18.race_done")
	vAssert(seen == 1, "C18.race_finally_ran_when_done_observed")
	vAssert(o.finals == 1, "C18.race_finally_exactly_once")
	vAssert(o.calls < 100, "C18.race_no_retry_callback_after_done")
	vAssert(t.Err() == nil, "C18.race_err_is_the_first_result")
	vAssert(vRaces() == 0, "C18.race_free")
}

// VH_C18_timed_race(bound, zero): pre-emptive interleavings of a
// TimedTransaction's timer callback with Success(); zero = 1: the timeout is 0,
// so the timer is due before the constructor has stored it.
func VH_C18_timed_race(bound, zero int) {
	o := &vC18Obs{}
	d := time.Hour
	if zero == 1 {
		d = 0
	}
	var t *TimedTransaction
	vOnTaskPanic("C18.race_no_panic")
	vPreempt(bound)
	panicked := vPanics(func() {
		t = NewTimedTransaction(context.Background(), d, func() { o.finals++ })
		done := false
		vGo(func() { t.Success(); done = true })
		if zero == 0 {
			vGo(func() { t.Fail(ErrTimeout) }) // what the timer callback does
		}
		vRunUntilIdle()
		vAssume(done)
	})
	vPreempt(0)
	vAssert(!panicked, "C18.race_no_panic")
	if !panicked {
		vReach("C18.timed_race_done")
		vAssert(o.finals == 1, "C18.race_finally_exactly_once")
	}
}
