package transactions

import (
	"context"
	"time"
)

// C19: retry and timeout budgets are exact (virtual time).

// VH_C19_retry(rc, reproceed): a retry transaction with retryCount rc and a
// symbolic retryDelay D. Without progress the callback runs exactly rc times,
// at t0 + i*D, and the transaction fails with ErrNoMoreRetries at t0+(rc+1)*D.
// With reproceed = j > 0, Proceed is called again right after the j-th
// callback: the schedule restarts from that instant.
func VH_C19_retry(rc int, reproceed int, sameState int) {
	d := vNondetDelay("delay")
	vAssume(vAnd(d > 0, d < 1<<40))
	var calls []int64
	finals := 0
	var t *RetryTransaction
	t = NewRetryTransaction(context.Background(), time.Duration(d), uint(rc),
		func(data interface{}) error {
			calls = append(calls, vNow())
			return nil
		},
		func() { finals++ })
	t0 := vNow()
	t.Proceed(1, "data")
	base := t0
	fired := 0
	expected := 0
	for step := 0; step < rc+2+reproceed+2; step++ {
		select {
		case <-t.Done():
			step = 1 << 20
			continue
		default:
		}
		if !vAdvance() {
			break
		}
		fired++
		if reproceed > 0 && len(calls) == reproceed && base == t0 {
			// progress: restart the budget from now
			base = vNow()
			expected = len(calls)
			// progress into a new state, or into an equal state (any Proceed is progress)
			if sameState == 1 {
				t.Proceed(1, "data2")
			} else {
				t.Proceed(2, "data2")
			}
		}
	}
	_ = fired
	done := false
	select {
	case <-t.Done():
		done = true
	default:
	}
	vAssert(done, "C19.retry_eventually_fails")
	vAssert(t.Err() == ErrNoMoreRetries, "C19.retry_err")
	want := rc
	if reproceed > 0 && reproceed <= rc {
		want = reproceed + rc
	}
	vAssert(len(calls) == want, "C19.retry_callback_count")
	// callbacks are exactly RetryDelay apart, counted from the last progress
	ok := true
	for i, at := range calls {
		var exp int64
		if reproceed > 0 && reproceed <= rc && i >= reproceed {
			exp = base + int64(i-expected+1)*d
		} else {
			exp = t0 + int64(i+1)*d
		}
		ok = vAnd(ok, vTimeEq(at, exp))
	}
	vAssert(ok, "C19.retry_callback_times")
	// the failure comes one more RetryDelay after the last callback
	vAssert(vTimeEq(vNow(), base+int64(rc+1)*d), "C19.retry_fail_time")
	vAssert(finals >= 1, "C19.retry_finally_ran")
	vAssert(vPendingTimers() <= 0, "C19.retry_no_timer_left")
}

// VH_C19_timed(order): a timed transaction with a symbolic timeout.
// order 0: nothing happens -> ErrTimeout exactly at the deadline.
// order 1: Success before the deadline -> Err() == nil, and the timer never fires.
// order 2: Fail(e) before the deadline -> Err() == e.
func VH_C19_timed(order int) {
	d := vNondetDelay("timeout")
	vAssume(vAnd(d > 0, d < 1<<40))
	finals := 0
	t := NewTimedTransaction(context.Background(), time.Duration(d), func() { finals++ })
	t0 := vNow()
	switch order {
	case 0:
		fired := vAdvance()
		vAssert(fired, "C19.timed_timer_armed")
		vAssert(vTimeEq(vNow(), t0+d), "C19.timed_deadline")
		done := false
		select {
		case <-t.Done():
			done = true
		default:
		}
		vAssert(vAnd(done, t.Err() == ErrTimeout), "C19.timed_timeout")
	case 1:
		t.Success()
		fired := vAdvance()
		vAssert(!fired, "C19.timed_timer_stopped")
		done := false
		select {
		case <-t.Done():
			done = true
		default:
		}
		vAssert(vAnd(done, t.Err() == nil), "C19.timed_success")
	case 2:
		t.Fail(context.Canceled)
		fired := vAdvance()
		vAssert(!fired, "C19.timed_timer_stopped")
		vAssert(t.Err() == context.Canceled, "C19.timed_fail")
	}
	vAssert(finals >= 1, "C19.timed_finally_ran")
}
