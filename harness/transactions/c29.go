package transactions

import (
	pkts "github.com/energomonitor/bisquitt/packets"
)

// C29: the transaction store behaves like a map per key space (sequential part).

type vTx struct {
	*TransactionBase
	tag int
}

func vNewTx(tag int) *vTx { return &vTx{TransactionBase: NewTransactionBase(nil), tag: tag} }

// VH_C29_store(nops): nops operations with symbolic kinds and keys against a reference association list.
func VH_C29_store(nops int) {
	ts := NewTransactionStore()
	type ent struct {
		k   uint16
		tag int
	}
	var byID, byType []ent // reference: last write wins
	refGet := func(es []ent, k uint16) (int, bool) {
		tag, found := 0, false
		for _, e := range es {
			if e.k == k {
				tag, found = e.tag, e.tag != 0
			}
		}
		return tag, found
	}
	for i := 0; i < nops; i++ {
		op := vChoose(6)
		k := vNondetU16("key")
		kt := pkts.PacketType(k & 0xff)
		switch op {
		case 0:
			ts.Store(k, vNewTx(i+1))
			byID = append(byID, ent{k, i + 1})
		case 1:
			ts.Delete(k)
			byID = append(byID, ent{k, 0})
		case 2:
			t, ok := ts.Get(k)
			tag, found := refGet(byID, k)
			vAssert(ok == found, "C29.store_get_found")
			if ok && found {
				vAssert(t.(*vTx).tag == tag, "C29.store_get_value")
			}
		case 3:
			ts.StoreByType(kt, vNewTx(i+1))
			byType = append(byType, ent{uint16(kt), i + 1})
		case 4:
			ts.DeleteByType(kt)
			byType = append(byType, ent{uint16(kt), 0})
		case 5:
			t, ok := ts.GetByType(kt)
			tag, found := refGet(byType, uint16(kt))
			vAssert(ok == found, "C29.store_getbytype_found")
			if ok && found {
				vAssert(t.(*vTx).tag == tag, "C29.store_getbytype_value")
			}
		}
	}
}

// VH_C29_concurrent_store(bound): two goroutines use the store concurrently
// (pre-emptive interleavings, context bound `bound`): one stores under two keys
// and deletes the first, the other stores under a key of its own and reads it
// back. Afterwards the store holds exactly what a sequential execution leaves.
func VH_C29_concurrent_store(bound int) {
	ts := NewTransactionStore()
	k1, k2, k3 := vNondetU16("k1"), vNondetU16("k2"), vNondetU16("k3")
	vAssume(vAnd(k1 != k2, vAnd(k1 != k3, k2 != k3)))
	a, b, c := vNewTx(1), vNewTx(2), vNewTx(3)
	d1, d2 := false, false
	var readBack Transaction
	var readOK bool
	vPreempt(bound)
	vGo(func() { ts.Store(k1, a); ts.Store(k2, b); ts.Delete(k1); d1 = true })
	vGo(func() { ts.Store(k3, c); readBack, readOK = ts.Get(k3); d2 = true })
	vRunUntilIdle()
	vPreempt(0)
	vAssume(vAnd(d1, d2))
	vReach("C29.concurrent_store_done")
	vAssert(vAnd(readOK, readBack == Transaction(c)), "C29.concurrent_own_key_visible")
	_, ok1 := ts.Get(k1)
	t2, ok2 := ts.Get(k2)
	t3, ok3 := ts.Get(k3)
	vAssert(vAnd(!ok1, vAnd(vAnd(ok2, t2 == Transaction(b)), vAnd(ok3, t3 == Transaction(c)))), "C29.concurrent_final_content")
	vAssert(vRaces() == 0, "C29.concurrent_race_free")
}
