package transactions

import (
	pkts "github.com/energomonitor/bisquitt/packets"
)

// C29: the transaction store behaves like a map per key space (sequential part).

type vTx struct {
	*TransactionBase
	tag int
}

func vNewTx(tag int) *vTx { return &vTx{TransactionBase: NewTransactionBase(nil), tag: tag} }

// VH_C29_store(nops): nops operations with symbolic kinds and keys against a reference association list.
func VH_C29_store(nops int) {
	ts := NewTransactionStore()
	type ent struct {
		k   uint16
		tag int
	}
	var byID, byType []ent // reference: last write wins
	refGet := func(es []ent, k uint16) (int, bool) {
		tag, found := 0, false
		for _, e := range es {
			if e.k == k {
				tag, found = e.tag, e.tag != 0
			}
		}
		return tag, found
	}
	for i := 0; i < nops; i++ {
		op := vChoose(6)
		k := vNondetU16("key")
		kt := pkts.PacketType(k & 0xff)
		switch op {
		case 0:
			ts.Store(k, vNewTx(i+1))
			byID = append(byID, ent{k, i + 1})
		case 1:
			ts.Delete(k)
			byID = append(byID, ent{k, 0})
		case 2:
			t, ok := ts.Get(k)
			tag, found := refGet(byID, k)
			vAssert(ok == found, "C29.store_get_found")
			if ok && found {
				vAssert(t.(*vTx).tag == tag, "C29.store_get_value")
			}
		case 3:
			ts.StoreByType(kt, vNewTx(i+1))
			byType = append(byType, ent{uint16(kt), i + 1})
		case 4:
			ts.DeleteByType(kt)
			byType = append(byType, ent{uint16(kt), 0})
		case 5:
			t, ok := ts.GetByType(kt)
			tag, found := refGet(byType, uint16(kt))
			vAssert(ok == found, "C29.store_getbytype_found")
			if ok && found {
				vAssert(t.(*vTx).tag == tag, "C29.store_getbytype_value")
			}
		}
	}
}
