package util

// VSeqState builds an IDSequence in an arbitrary internal state (harness hook:
// exported so that the harnesses of other packages can construct pre-states).
// The overflow flag is written through a type switch so that the hook still
// compiles when the flag's representation changes (bool, or an integer used
// with sync/atomic): a harness that does not load decides nothing.
func VSeqState(min, max, next uint16, overflow bool) *IDSequence {
	s := &IDSequence{next: next, min: min, max: max}
	switch p := interface{}(&s.overflow).(type) {
	case *bool:
		*p = overflow
	case *uint32:
		if overflow {
			*p = 1
		}
	case *int32:
		if overflow {
			*p = 1
		}
	}
	return s
}

// VSeqPeek exposes the internal state (for oracles).
func VSeqPeek(s *IDSequence) (next uint16, overflow bool) {
	switch p := interface{}(&s.overflow).(type) {
	case *bool:
		overflow = *p
	case *uint32:
		overflow = *p != 0
	case *int32:
		overflow = *p != 0
	}
	return s.next, overflow
}
