package util

// VSeqState builds an IDSequence in an arbitrary internal state (harness hook:
// exported so that the harnesses of other packages can construct pre-states).
func VSeqState(min, max, next uint16, overflow bool) *IDSequence {
	return &IDSequence{next: next, min: min, max: max, overflow: overflow}
}

// VSeqPeek exposes the internal state (for oracles).
func VSeqPeek(s *IDSequence) (next uint16, overflow bool) {
	return s.next, s.overflow
}
