package util

// C29 (sequential semantics by induction): one Next() from an arbitrary state.

func VH_C29_next() {
	min, max, next := vNondetU16("min"), vNondetU16("max"), vNondetU16("next")
	ov := vNondetBool("overflow")
	vAssume(vAnd(min <= next, next <= max))
	s := VSeqState(min, max, next, ov)
	id, o := s.Next()
	vAssert(vAnd(id == next, o == ov), "C29.next_returns_state")
	n2, o2 := VSeqPeek(s)
	if next == max {
		vReach("C29.wrap")
		vAssert(vAnd(n2 == min, o2), "C29.next_wraps")
	} else {
		vReach("C29.step")
		vAssert(vAnd(n2 == next+1, !o2), "C29.next_increments")
	}
	vAssert(vAnd(min <= n2, n2 <= max), "C29.next_stays_in_range")
	// chained: overflow is reported exactly on the first value after a wrap
	id2, o3 := s.Next()
	vAssert(vAnd(id2 == n2, o3 == (next == max)), "C29.overflow_exactly_after_wrap")
	// two consecutive results differ unless the range has a single element
	vAssert(vOr(id != id2, min == max), "C29.consecutive_distinct")
}

// VH_C29_new: the constructor starts at min without overflow.
func VH_C29_new() {
	min, max := vNondetU16("min"), vNondetU16("max")
	vAssume(min <= max)
	s := NewIDSequence(min, max)
	n, o := VSeqPeek(s)
	vAssert(vAnd(n == min, !o), "C29.new_starts_at_min")
	id, ov := s.Next()
	vAssert(vAnd(id == min, !ov), "C29.first_is_min")
}

// VH_C29_state: ClientState Set returns the old value, Get the current one.
func VH_C29_state() {
	a, b := ClientState(vNondetU32("a")), ClientState(vNondetU32("b"))
	s := a
	old := s.Set(b)
	vAssert(vAnd(old == a, s.Get() == b), "C29.state_swap")
}

// VH_C29_concurrent_next(bound): two goroutines take two IDs each,
// pre-emptively interleaved (context bound `bound`): the four results are the
// four consecutive IDs, each handed out once, and no data race is seen.
func VH_C29_concurrent_next(bound int) {
	next := vNondetU16("next")
	vAssume(vAnd(next >= 1, next <= 1000))
	s := VSeqState(1, 0xFFFE, next, false)
	var got [4]uint16
	d1, d2 := false, false
	vPreempt(bound)
	vGo(func() { got[0], _ = s.Next(); got[1], _ = s.Next(); d1 = true })
	vGo(func() { got[2], _ = s.Next(); got[3], _ = s.Next(); d2 = true })
	vRunUntilIdle()
	vPreempt(0)
	vAssume(vAnd(d1, d2))
	vReach("C29.concurrent_done")
	seen := 0
	for _, g := range got {
		ok := vAnd(g >= next, g < next+4)
		vAssert(ok, "C29.concurrent_ids_consecutive")
		if ok {
			seen |= 1 << uint(g-next)
		}
	}
	vAssert(seen == 15, "C29.concurrent_ids_distinct")
	vAssert(vAnd(got[0] < got[1], got[2] < got[3]), "C29.concurrent_ids_ordered_per_goroutine")
	vAssert(vRaces() == 0, "C29.concurrent_race_free")
}

// VH_C29_concurrent_wrap(bound): public API only (no field is named, so the
// harness survives a change of the representation). A three-element range,
// k sequential calls (k symbolic, 1..3), then two goroutines with two calls
// each, pre-emptively interleaved while the sequence wraps. In every
// interleaving the results must be explainable by some sequential order:
// the first ID was consumed before, so ID min is handed out only directly
// after a wrap and carries overflow = true, every other ID carries false;
// the four IDs are the four cyclically consecutive ones.
func VH_C29_concurrent_wrap(bound int) {
	k := vNondetU16("k")
	vAssume(vAnd(k >= 1, k <= 3))
	s := NewIDSequence(1, 3)
	for i := uint16(0); i < k; i++ {
		s.Next()
	}
	var id [4]uint16
	var ov [4]bool
	d1, d2 := false, false
	vPreempt(bound)
	vGo(func() { id[0], ov[0] = s.Next(); id[1], ov[1] = s.Next(); d1 = true })
	vGo(func() { id[2], ov[2] = s.Next(); id[3], ov[3] = s.Next(); d2 = true })
	vRunUntilIdle()
	vPreempt(0)
	vAssume(vAnd(d1, d2))
	vReach("C29.concurrent_wrap_done")
	start := k%3 + 1 // the ID the first of the four calls must get
	var cnt [3]int
	for i := 0; i < 4; i++ {
		in := vAnd(id[i] >= 1, id[i] <= 3)
		vAssert(in, "C29.concurrent_wrap_in_range")
		if in {
			cnt[id[i]-1]++
		}
		vAssert(ov[i] == (id[i] == 1), "C29.concurrent_wrap_overflow_with_min_only")
	}
	for v := uint16(1); v <= 3; v++ {
		want := 1
		if v == start {
			want = 2
		}
		vAssert(cnt[v-1] == want, "C29.concurrent_wrap_ids_cyclic")
	}
	vAssert(vRaces() == 0, "C29.concurrent_wrap_race_free")
}
