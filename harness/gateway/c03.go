package gateway

import (
	mqPkts "github.com/eclipse/paho.mqtt.golang/packets"

	snPkts1 "github.com/energomonitor/bisquitt/packets1"
	"github.com/energomonitor/bisquitt/util"
)

// C03: control packets are translated one-to-one with matching IDs and codes.

type vC03 struct {
	x      *vH
	re     []vEntry
	ce, we []vEntry
}

func vC03World(nameLen int) *vC03 {
	cid := vNondetString("clientid", 1)
	vAssume(cid != "*")
	pre, ce, we := vPredef(cid, 1, 1, nameLen)
	x := vMkHandler(vNondetBool("auth"), nil, nil, pre)
	x.h.clientID = cid
	x.h.keepAlive = 10
	x.h.state.Set(util.StateActive)
	re := vRegistry(x.h, 1, nameLen)
	// the ID space is not about to be exhausted (exhaustion is C04's subject)
	next, _ := util.VSeqPeek(x.h.topicID)
	vAssume(next < 0xFFF0)
	return &vC03{x, re, ce, we}
}

// VH_C03_subscribe(bodyLen, nameLen): SUBSCRIBE from the client, then the broker's SUBACK.
func VH_C03_subscribe(bodyLen, nameLen int) {
	w := vC03World(nameLen)
	h := w.x.h
	sub := vSNPacket(vtSUBSCRIBE, bodyLen).(*snPkts1.Subscribe)
	vLabel("req_qos", uint64(sub.QOS))
	vAssume(sub.QOS <= 2) // QoS 3 is refused (C24); the translation clause is about requests 0..2
	err := w.x.feedSN(sub)
	mq, sn := w.x.mq.take(), w.x.sn.take()

	// resolved filter by the reference
	var filter string
	refOK := true
	switch sub.TopicIDType {
	case 0:
		filter = sub.TopicName
	case 1:
		filter, refOK = vRefName(w.ce, w.we, sub.TopicID)
	case 2:
		filter = string([]byte{byte(sub.TopicID >> 8), byte(sub.TopicID)})
	}
	if !refOK {
		vReach("C03.sub_unknown_predefined")
		vAssert(len(mq) == 0, "C03.sub_unknown_not_forwarded")
		return
	}
	vAssert(err == nil, "C03.sub_accepted")
	vAssert(vAnd(len(mq) == 1, len(sn) == 0), "C03.sub_one_to_one")
	if err != nil || len(mq) != 1 {
		return
	}
	m := vParseMQTT(mq[0])
	vAssert(vAnd(m.OK, vAnd(m.Typ == vmSUBSCRIBE, len(m.Filters) == 1)), "C03.sub_is_subscribe")
	if !m.OK || m.Typ != vmSUBSCRIBE || len(m.Filters) != 1 {
		return
	}
	vAssert(m.MsgID == sub.MessageID(), "C03.sub_msgid")
	vAssert(string(m.Filters[0]) == filter, "C03.sub_filter")
	vAssert(m.Qoss[0] == sub.QOS, "C03.sub_qos")

	// the topic ID the gateway assigned: the ID now registered for a plain name
	var assigned uint16
	switch sub.TopicIDType {
	case 0:
		if !vHasWild([]byte(filter)) {
			// the registration made (or found) by this SUBSCRIBE: some ID now denotes the name
			found := false
			vMapOrderFixed(true)
			h.registeredTopics.Range(func(k, v interface{}) bool {
				if v.(string) == filter {
					found = true
					return false
				}
				return true
			})
			vMapOrderFixed(false)
			vAssert(found, "C03.sub_registered")
		}
	case 1:
		assigned = sub.TopicID
	}

	// broker SUBACK
	ack := mqPkts.NewControlPacket(mqPkts.Suback).(*mqPkts.SubackPacket)
	ack.MessageID = sub.MessageID()
	rc := vNondetU8("suback_rc")
	vAssume(vOr(rc <= 2, rc == 0x80))
	ack.ReturnCodes = []byte{rc}
	err = w.x.feedMQ(ack)
	mq, sn = w.x.mq.take(), w.x.sn.take()
	vAssert(vAnd(len(sn) == 1, len(mq) == 0), "C03.suback_one_to_one")
	if len(sn) != 1 {
		return
	}
	r := vParseSN(sn[0])
	vAssert(vAnd(r.OK, r.Typ == vtSUBACK), "C03.suback_is_suback")
	if !r.OK || r.Typ != vtSUBACK {
		return
	}
	vAssert(r.MsgID == sub.MessageID(), "C03.suback_msgid")
	vAssert((r.RC == 0) == (rc <= 2), "C03.suback_accepted_iff_granted")
	if rc <= 2 {
		vReach("C03.suback_granted")
		vAssert((r.Flags>>5)&3 == rc, "C03.suback_granted_qos")
		if sub.TopicIDType == 0 && !vHasWild([]byte(filter)) {
			// the ID in the SUBACK denotes the subscribed name in this session
			name, ok := h.registeredTopics.Load(r.TopicID)
			nm, _ := name.(string)
			vAssert(vAnd(ok, nm == filter), "C03.suback_topicid")
		} else {
			vAssert(r.TopicID == assigned, "C03.suback_topicid")
		}
	}
}

// VH_C03_unsubscribe(bodyLen, nameLen)
func VH_C03_unsubscribe(bodyLen, nameLen int) {
	w := vC03World(nameLen)
	un := vSNPacket(vtUNSUBSCRIBE, bodyLen).(*snPkts1.Unsubscribe)
	err := w.x.feedSN(un)
	mq, sn := w.x.mq.take(), w.x.sn.take()
	var filter string
	refOK := true
	switch un.TopicIDType {
	case 0:
		filter = un.TopicName
	case 1:
		filter, refOK = vRefName(w.ce, w.we, un.TopicID)
	case 2:
		filter = string([]byte{byte(un.TopicID >> 8), byte(un.TopicID)})
	}
	if !refOK {
		vAssert(len(mq) == 0, "C03.unsub_unknown_not_forwarded")
		return
	}
	vAssert(vAnd(err == nil, vAnd(len(mq) == 1, len(sn) == 0)), "C03.unsub_one_to_one")
	if len(mq) != 1 {
		return
	}
	m := vParseMQTT(mq[0])
	vAssert(vAnd(m.OK, vAnd(m.Typ == vmUNSUBSCRIBE, len(m.Filters) == 1)), "C03.unsub_is_unsubscribe")
	if m.OK && m.Typ == vmUNSUBSCRIBE && len(m.Filters) == 1 {
		vAssert(vAnd(m.MsgID == un.MessageID(), string(m.Filters[0]) == filter), "C03.unsub_fields")
	}
}

// VH_C03_passthrough(kind): the packets translated without state.
func VH_C03_passthrough(kind int) {
	w := vC03World(1)
	switch kind {
	case 0: // PUBREL from the client
		p := vSNPacket(vtPUBREL, 2).(*snPkts1.Pubrel)
		err := w.x.feedSN(p)
		mq, sn := w.x.mq.take(), w.x.sn.take()
		vAssert(vAnd(err == nil, vAnd(len(mq) == 1, len(sn) == 0)), "C03.pubrel_one_to_one")
		if len(mq) == 1 {
			m := vParseMQTT(mq[0])
			vAssert(vAnd(m.OK, vAnd(m.Typ == vmPUBREL, m.MsgID == p.MessageID())), "C03.pubrel_fields")
		}
	case 1: // PINGREQ from an active client
		p := vSNPacket(vtPINGREQ, 1)
		err := w.x.feedSN(p)
		mq, sn := w.x.mq.take(), w.x.sn.take()
		vAssert(vAnd(err == nil, vAnd(len(mq) == 1, len(sn) == 0)), "C03.pingreq_one_to_one")
		if len(mq) == 1 {
			m := vParseMQTT(mq[0])
			vAssert(vAnd(m.OK, m.Typ == vmPINGREQ), "C03.pingreq_fields")
		}
	case 2: // plain DISCONNECT from the client
		p := vSNPacket(vtDISCONNECT, 0)
		err := w.x.feedSN(p)
		mq, sn := w.x.mq.take(), w.x.sn.take()
		vAssert(vAnd(err == Shutdown, vAnd(len(mq) == 1, len(sn) == 1)), "C03.disconnect_one_to_one")
		if len(mq) == 1 && len(sn) == 1 {
			m := vParseMQTT(mq[0])
			r := vParseSN(sn[0])
			vAssert(vAnd(vAnd(m.OK, m.Typ == vmDISCONNECT), vAnd(r.OK, vAnd(r.Typ == vtDISCONNECT, r.Empty))), "C03.disconnect_fields")
		}
	case 3, 4, 5: // PUBREC, PUBCOMP, UNSUBACK from the broker
		typ := []byte{mqPkts.Pubrec, mqPkts.Pubcomp, mqPkts.Unsuback}[kind-3]
		want := []byte{vtPUBREC, vtPUBCOMP, vtUNSUBACK}[kind-3]
		p := vMQEvent(int(typ), 0)
		var id uint16
		switch q := p.(type) {
		case *mqPkts.PubrecPacket:
			id = q.MessageID
		case *mqPkts.PubcompPacket:
			id = q.MessageID
		case *mqPkts.UnsubackPacket:
			id = q.MessageID
		}
		err := w.x.feedMQ(p)
		mq, sn := w.x.mq.take(), w.x.sn.take()
		vAssert(vAnd(err == nil, vAnd(len(sn) == 1, len(mq) == 0)), "C03.ack_one_to_one")
		if len(sn) == 1 {
			r := vParseSN(sn[0])
			vAssert(vAnd(r.OK, vAnd(r.Typ == want, r.MsgID == id)), "C03.ack_fields")
		}
	case 6: // PINGRESP from the broker, client active
		err := w.x.feedMQ(vMQEvent(mqPkts.Pingresp, 0))
		mq, sn := w.x.mq.take(), w.x.sn.take()
		vAssert(vAnd(err == nil, vAnd(len(sn) == 1, len(mq) == 0)), "C03.pingresp_one_to_one")
		if len(sn) == 1 {
			r := vParseSN(sn[0])
			vAssert(vAnd(r.OK, r.Typ == vtPINGRESP), "C03.pingresp_fields")
		}
	}
}
