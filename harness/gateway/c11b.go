package gateway

import (
	"bytes"

	snPkts1 "github.com/energomonitor/bisquitt/packets1"
)

// VH_C11_two_cycles(k1, k2, wake1): two sleep cycles. Cycle 1: DISCONNECT(d),
// broker event k1, wake-up by PINGREQ (wake1 = 0) or by CONNECT (wake1 = 1:
// the client becomes active again and gets the buffered packets after the
// CONNACK). Cycle 2: DISCONNECT(d) again, broker event k2, wake-up by PINGREQ:
// the client gets exactly what a never-sleeping twin got for event k2, once,
// then PINGRESP - nothing of cycle 1 again.
func VH_C11_two_cycles(k1, k2, wake1 int) {
	x, twin := vC11Handler(), vC11Handler()
	d := snPkts1.NewDisconnect(vNondetU16("duration"))
	vAssume(d.Duration != 0)
	vAssume(x.feedSN(d) == nil)
	x.sn.take()
	e1 := vC11Pick(k1)
	x.feedMQ(e1.packet())
	twin.feedMQ(e1.packet())
	exp1 := twin.sn.take()
	if wake1 == 0 {
		vAssume(x.feedSN(snPkts1.NewPingreq([]byte("c"))) == nil)
	} else {
		vAssume(x.feedSN(snPkts1.NewConnect(10, []byte("c"), false, true)) == nil)
	}
	got1 := x.sn.take()
	// cycle 1: the buffered packets, each once, plus exactly one PINGRESP / CONNACK
	n1 := 0
	for _, g := range got1 {
		for _, w := range exp1 {
			if bytes.Equal(g, w) {
				n1++
			}
		}
	}
	vAssert(vAnd(len(got1) == len(exp1)+1, n1 == len(exp1)), "C11.first_cycle_delivered_once")
	// the client acknowledges what it got (REGACK for a REGISTER), as the twin's client does
	x.mq.take()
	twin.mq.take()
	// cycle 2
	vAssume(x.feedSN(d) == nil)
	x.sn.take()
	e2 := vC11Pick(k2)
	x.feedMQ(e2.packet())
	vAssert(len(x.sn.out) == 0, "C11.nothing_sent_while_asleep")
	twin.feedMQ(e2.packet())
	exp2 := twin.sn.take()
	vAssume(x.feedSN(snPkts1.NewPingreq([]byte("c"))) == nil)
	got2 := x.sn.take()
	vReach("C11.second_wakeup")
	ok := len(got2) == len(exp2)+1
	if ok {
		for i := range exp2 {
			ok = vAnd(ok, bytes.Equal(got2[i], exp2[i]))
		}
		last := vParseSN(got2[len(got2)-1])
		ok = vAnd(ok, vAnd(last.OK, last.Typ == vtPINGRESP))
	}
	vAssert(ok, "C11.second_cycle_delivers_only_its_own_packets")
}

// VH_C11_race(bound): a broker PUBLISH (handled by the broker-side receive
// goroutine) races with the wake-up PINGREQ (handled by the client-side receive
// goroutine), pre-emptively interleaved with context bound `bound`. Whichever
// way the race goes, the message reaches the client exactly once - in this
// wake-up or in the next one - and each wake-up ends with one PINGRESP.
func VH_C11_race(bound int) {
	x := vC11Handler()
	vAssume(x.feedSN(snPkts1.NewDisconnect(60)) == nil)
	x.sn.take()
	e := vC11Pick(0)
	d1, d2 := false, false
	vOnTaskPanic("C11.race_no_panic")
	vPreempt(bound)
	vGo(func() { x.feedMQ(e.packet()); d1 = true })
	vGo(func() { x.feedSN(snPkts1.NewPingreq([]byte("c"))); d2 = true })
	vRunUntilIdle()
	vPreempt(0)
	vAssume(vAnd(d1, d2))
	// the next wake-up
	vAssume(x.feedSN(snPkts1.NewPingreq([]byte("c"))) == nil)
	out := x.sn.take()
	vReach("C11.race_done")
	vAssert(vCountSN(out, vtPUBLISH) == 1, "C11.race_message_delivered_once")
	vAssert(vCountSN(out, vtPINGRESP) == 2, "C11.race_each_wakeup_answered")
	vAssert(vRaces() == 0, "C11.race_free")
}
