package gateway

import (
	"time"

	mqPkts "github.com/eclipse/paho.mqtt.golang/packets"

	"github.com/energomonitor/bisquitt/client"
	snPkts "github.com/energomonitor/bisquitt/packets"
	snPkts1 "github.com/energomonitor/bisquitt/packets1"
	"github.com/energomonitor/bisquitt/util"
)

// C32: short-topic and predefined routing is consistent between the client
// library and the gateway when they share a predefined-topic configuration.

type vC32 struct {
	x    *vH
	cl   *client.Client
	conn *vRecConn
	cid  string
	got  []string
}

func vC32World(nc, nw, nameLen int) (*vC32, []vEntry, []vEntry) {
	cid := vNondetString("clientid", 1)
	vAssume(cid != "*")
	pre, ce, we := vPredef(cid, nc, nw, nameLen)
	w := &vC32{cid: cid, conn: &vRecConn{}}
	w.x = vMkHandler(false, nil, nil, pre)
	w.x.h.clientID = cid
	w.x.h.keepAlive = 10
	w.x.h.state.Set(util.StateActive)
	cfg := &client.ClientConfig{ClientID: cid, RetryDelay: time.Second, RetryCount: 1, ConnectTimeout: time.Second, PredefinedTopics: pre}
	w.cl = client.VNewClientOnConn(cfg, w.conn)
	client.VSetActive(w.cl)
	return w, ce, we
}

// toGateway feeds what the client wrote to the gateway (through the real decoder).
func (w *vC32) toGateway() {
	for _, d := range w.conn.take() {
		pkt, err := snPkts1.ReadPacket(&vBytesReader{d})
		vAssume(err == nil)
		w.x.feedSN(pkt)
	}
}

// toClient feeds what the gateway wrote to the client.
func (w *vC32) toClient() {
	for _, d := range w.x.sn.take() {
		pkt, err := snPkts1.ReadPacket(&vBytesReader{d})
		vAssume(err == nil)
		client.VHandlePacket(w.cl, pkt)
	}
}

// VH_C32_publish(nc, nw, nameLen): the client publishes on a name the way
// bisquitt-pub does (predefined ID if the shared configuration has one for the
// name, the short encoding for 2-byte names); the broker sees that name.
func VH_C32_publish(nc, nw, nameLen int) {
	w, _, _ := vC32World(nc, nw, nameLen)
	name := vNondetString("name", nameLen)
	vAssume(!vHasWild([]byte(name)))
	id, isPre := w.x.h.predefinedTopics.GetTopicID(w.cid, name)
	if isPre {
		vReach("C32.predefined_publish")
		w.cl.PublishPredefined(id, []byte("x"), 0, false)
	} else if snPkts.IsShortTopic(name) {
		vReach("C32.short_publish")
		w.cl.Publish(name, []byte("x"), 0, false)
	} else {
		return
	}
	w.toGateway()
	mq := w.x.mq.take()
	vAssert(len(mq) == 1, "C32.publish_forwarded")
	if len(mq) == 1 {
		m := vParseMQTT(mq[0])
		vAssert(vAnd(m.OK, vAnd(m.Typ == vmPUBLISH, string(m.Topic) == name)), "C32.broker_sees_client_name")
	}
}

// VH_C32_deliver(nc, nw, nameLen): a subscription by predefined ID / short name,
// then a broker message on a predefined or short name: the callback gets the
// broker's name.
func VH_C32_deliver(nc, nw, nameLen int) {
	w, _, _ := vC32World(nc, nw, nameLen)
	name := vNondetString("name", nameLen)
	vAssume(vAnd(len(name) > 0, !vHasWild([]byte(name))))
	id, isPre := w.x.h.predefinedTopics.GetTopicID(w.cid, name)
	short := snPkts.IsShortTopic(name)
	if !isPre && !short {
		return
	}
	// subscribe to everything so that the dispatch does not filter
	vGo(func() {
		w.cl.Subscribe("#", 0, func(c *client.Client, topic string, pkt *snPkts1.Publish) { w.got = append(w.got, topic) })
	})
	vRunUntilIdle()
	w.toGateway()
	mq := w.x.mq.take()
	vAssume(len(mq) == 1)
	sub := vParseMQTT(mq[0])
	ack := mqPkts.NewControlPacket(mqPkts.Suback).(*mqPkts.SubackPacket)
	ack.MessageID = sub.MsgID
	ack.ReturnCodes = []byte{0}
	w.x.feedMQ(ack)
	w.toClient()
	vRunUntilIdle()
	// the broker publishes on the name
	p := mqPkts.NewControlPacket(mqPkts.Publish).(*mqPkts.PublishPacket)
	p.TopicName = name
	p.Payload = []byte("y")
	w.x.feedMQ(p)
	out := w.x.sn.out
	vAssert(len(out) == 1, "C32.delivered_as_one_datagram")
	if len(out) == 1 {
		r := vParseSN(out[0])
		if short {
			vAssert(vAnd(r.OK, r.Flags&3 == 2), "C32.short_name_uses_short_id")
		} else {
			// (a configuration may list one name under several IDs: any ID that denotes
			// the name for this client is a correct choice)
			back, known := w.x.h.predefinedTopics.GetTopicName(w.cid, r.TopicID)
			_ = id
			vAssert(vAnd(r.OK, vAnd(r.Flags&3 == 1, vAnd(known, back == name))), "C32.predefined_name_uses_predefined_id")
		}
	}
	w.toClient()
	vRunUntilIdle()
	vAssert(len(w.got) == 1, "C32.callback_invoked")
	if len(w.got) == 1 {
		vReach("C32.delivered")
		vAssert(w.got[0] == name, "C32.client_sees_broker_name")
	}
}

// VH_C32_subscribe(nc, nw, nameLen): SubscribePredefined(id): the filter the
// broker sees is the name under which the client stores its handler.
func VH_C32_subscribe(nc, nw, nameLen int) {
	w, _, _ := vC32World(nc, nw, nameLen)
	id := vNondetU16("id")
	clientName, known := w.x.h.predefinedTopics.GetTopicName(w.cid, id)
	vAssume(known)
	vGo(func() {
		w.cl.SubscribePredefined(id, 0, func(c *client.Client, topic string, pkt *snPkts1.Publish) { w.got = append(w.got, topic) })
	})
	vRunUntilIdle()
	w.toGateway()
	mq := w.x.mq.take()
	vAssert(len(mq) == 1, "C32.subscribe_forwarded")
	if len(mq) == 1 {
		m := vParseMQTT(mq[0])
		vAssert(vAnd(m.OK, vAnd(m.Typ == vmSUBSCRIBE, len(m.Filters) == 1)), "C32.subscribe_forwarded")
		if m.OK && len(m.Filters) == 1 {
			vReach("C32.predefined_subscribe")
			vAssert(string(m.Filters[0]) == clientName, "C32.broker_sees_client_filter")
		}
	}
}
