package gateway

import (
	"bytes"
	"context"
	"io"
	"net"
	"time"

	mqPkts "github.com/eclipse/paho.mqtt.golang/packets"

	snPkts "github.com/energomonitor/bisquitt/packets"
	"github.com/energomonitor/bisquitt/topics"
	"github.com/energomonitor/bisquitt/util"
)

// Session-level fixtures: the real handler1.run with its real receive loops,
// errgroup and contexts, on channel-backed connections with read deadlines, in
// virtual time (engine) or real time (native replay).

type vChanConn struct {
	in      chan []byte
	pending []byte // stream mode: bytes of the current chunk not yet consumed
	stream  bool
	out     [][]byte
	outAt   []int64
	closed  int
	rd      time.Time
	eof     bool
	// noDeadline: reads block until data arrives (read deadlines ignored). Used
	// where cancellation polling is irrelevant and would only multiply timer events.
	noDeadline bool
	// lazy: a blocked Read returns a timeout error only when the harness calls
	// poll(): a read-deadline expiry that finds the context still alive is a
	// no-op in util.ConnWithContext (goto AGAIN), so only the polls that follow
	// an event are kept.
	lazy bool
	kick chan struct{}
	// onWrite: observer of written packets (model broker)
	onWrite func(b []byte, at int64)
}

func vNewChanConn(stream bool) *vChanConn {
	return &vChanConn{in: make(chan []byte, 16), stream: stream, kick: make(chan struct{}, 1)}
}

func (c *vChanConn) Read(p []byte) (int, error) {
	if len(c.pending) > 0 {
		n := copy(p, c.pending)
		c.pending = c.pending[n:]
		return n, nil
	}
	if c.eof {
		return 0, io.EOF
	}
	if c.lazy {
		select {
		case b, ok := <-c.in:
			if !ok {
				c.eof = true
				return 0, io.EOF
			}
			n := copy(p, b)
			if c.stream {
				c.pending = b[n:]
			}
			return n, nil
		case <-c.kick:
			return 0, vTimeoutErr{}
		}
	}
	if c.noDeadline {
		b, ok := <-c.in
		if !ok {
			c.eof = true
			return 0, io.EOF
		}
		n := copy(p, b)
		if c.stream {
			c.pending = b[n:]
		}
		return n, nil
	}
	d := time.Until(c.rd)
	if d < 0 {
		d = 0
	}
	timer := time.NewTimer(d)
	select {
	case b, ok := <-c.in:
		timer.Stop()
		if !ok {
			c.eof = true
			return 0, io.EOF
		}
		n := copy(p, b)
		if c.stream {
			c.pending = b[n:]
		}
		return n, nil
	case <-timer.C:
		return 0, vTimeoutErr{}
	}
}

func (c *vChanConn) Write(p []byte) (int, error) {
	b := make([]byte, len(p))
	copy(b, p)
	c.out = append(c.out, b)
	c.outAt = append(c.outAt, vNow())
	if c.onWrite != nil {
		c.onWrite(b, vNow())
	}
	return len(p), nil
}
func (c *vChanConn) Close() error                       { c.closed++; return nil }
func (c *vChanConn) LocalAddr() net.Addr                { return nil }
func (c *vChanConn) RemoteAddr() net.Addr               { return nil }
func (c *vChanConn) SetDeadline(t time.Time) error      { c.rd = t; return nil }
func (c *vChanConn) SetReadDeadline(t time.Time) error  { c.rd = t; return nil }
func (c *vChanConn) SetWriteDeadline(t time.Time) error { return nil }

func (c *vChanConn) take() [][]byte {
	o := c.out
	c.out, c.outAt = nil, nil
	return o
}

type vSession struct {
	h        *handler1
	sn, mq   *vChanConn
	ctx      context.Context
	cancel   context.CancelFunc
	done     bool
	doneAt   int64
	panicked bool
}

// vStartSession starts handler1.run as a task, the way ListenAndServe does.
func vStartSession(auth bool, user *string, pass []byte, pre topics.PredefinedTopics) *vSession {
	return vStartSessionOpt(auth, user, pass, pre, false)
}

func vStartSessionOpt(auth bool, user *string, pass []byte, pre topics.PredefinedTopics, noDeadline bool) *vSession {
	cfg := &handlerConfig{AuthEnabled: auth, RetryDelay: time.Second, RetryCount: 2, MqttUser: user, MqttPassword: pass}
	s := &vSession{sn: vNewChanConn(false), mq: vNewChanConn(true)}
	s.sn.noDeadline, s.mq.noDeadline = noDeadline, noDeadline
	s.h = newHandler(cfg, pre, util.NoOpLogger{})
	s.h.mockupDialFunc = func() net.Conn { return s.mq }
	s.ctx, s.cancel = context.WithCancel(context.Background())
	vGo(func() {
		s.panicked = vPanics(func() { s.h.run(s.ctx, s.sn) })
		s.done = true
		s.doneAt = vNow()
	})
	vRunUntilIdle()
	return s
}

// clientSends delivers one datagram from the client and lets the session react.
func (s *vSession) clientSends(pkt snPkts.Packet) {
	b, _ := pkt.Pack()
	s.sn.in <- b
	vRunUntilIdle()
}

func (s *vSession) clientSendsRaw(b []byte) {
	s.sn.in <- b
	vRunUntilIdle()
}

// brokerSends delivers one MQTT packet from the broker (encoded by paho).
func (s *vSession) brokerSends(pkt mqPkts.ControlPacket) {
	var buf bytes.Buffer
	pkt.Write(&buf)
	s.mq.in <- buf.Bytes()
	vRunUntilIdle()
}

// runFor lets virtual time pass (timers fire) until the session has ended or
// the given virtual duration has elapsed.
func (s *vSession) runFor(d time.Duration, maxSteps int) {
	end := vNow() + int64(d)
	for i := 0; i < maxSteps && !s.done; i++ {
		if vNow() >= end {
			return
		}
		if !vAdvance() {
			return
		}
	}
}

// lastMqAt: the time of the last packet written to the broker (def if none since then).
func (s *vSession) lastMqAt(def int64) int64 {
	if n := len(s.mq.outAt); n > 0 && s.mq.outAt[n-1] > def {
		return s.mq.outAt[n-1]
	}
	return def
}

// poll: every blocked read of a lazy connection sees its read deadline expire once.
func (s *vSession) poll() {
	for _, c := range []*vChanConn{s.sn, s.mq} {
		select {
		case c.kick <- struct{}{}:
		default:
		}
	}
	vRunUntilIdle()
}
