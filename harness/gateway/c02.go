package gateway

import (
	"bytes"

	mqPkts "github.com/eclipse/paho.mqtt.golang/packets"

	"github.com/energomonitor/bisquitt/client"
	snPkts1 "github.com/energomonitor/bisquitt/packets1"
)

// C02: a broker PUBLISH reaches the client under a topic ID it can resolve.

type vC02Got struct {
	topic   string
	payload []byte
	qos     uint8
	retain  bool
}

// VH_C02_deliver(nameLen, nr, unsub): (unsub = 1: the client first unsubscribes, by name, from the first registered name) gateway and client share the predefined
// configuration; the client knows every registration of the gateway under the
// same ID (the invariant REGACK / SUBACK / REGISTER handling maintains). The
// broker publishes on a symbolic name (short, predefined, registered or new).
func VH_C02_deliver(nameLen, nr, unsub int) {
	w, ce, we := vC32World(1, 1, nameLen)
	re := vRegistry(w.x.h, nr, nameLen)
	for _, e := range re {
		vAssume(vAnd(len(e.name) > 0, !vHasWild([]byte(e.name))))
		_, pd := vRefName(ce, we, e.id)
		vAssume(!pd)
		client.VSetRegistered(w.cl, e.name, e.id)
	}
	for i := range re {
		for j := 0; j < i; j++ {
			vAssume(re[i].name != re[j].name) // the client keeps one ID per name
		}
	}
	var got []vC02Got
	client.VInstallHandler(w.cl, "#", func(c *client.Client, topic string, pkt *snPkts1.Publish) {
		got = append(got, vC02Got{topic, pkt.Data, pkt.QOS, pkt.Retain})
	})
	if unsub == 1 && nr > 0 {
		// the client unsubscribes from the first registered name (by name): both sides
		// keep the registration, so a later message on it (e.g. through a wildcard
		// subscription) still goes out under the ID the client knows
		vGo(func() { w.cl.Unsubscribe(re[0].name) })
		vRunUntilIdle()
		w.toGateway()
		mqu := w.x.mq.take()
		vAssume(len(mqu) == 1)
		u := vParseMQTT(mqu[0])
		ua := mqPkts.NewControlPacket(mqPkts.Unsuback).(*mqPkts.UnsubackPacket)
		ua.MessageID = u.MsgID
		w.x.feedMQ(ua)
		w.toClient()
		vRunUntilIdle()
		w.x.sn.take()
		vReach("C02.unsubscribed_first")
	}
	p := mqPkts.NewControlPacket(mqPkts.Publish).(*mqPkts.PublishPacket)
	p.TopicName = vNondetString("topic", nameLen)
	vAssume(vAnd(len(p.TopicName) > 0, !vHasWild([]byte(p.TopicName))))
	p.Qos = vNondetU8("qos")
	vAssume(p.Qos <= 2)
	p.Retain = vNondetBool("retain")
	p.MessageID = vNondetU16("msgid")
	p.Payload = vNondetBytes("payload", 2)
	next0, _ := vSeqPeek(w.x.h)
	vAssume(next0 < 0xFFF0)
	err := w.x.feedMQ(p)
	vAssert(err == nil, "C02.accepted")
	out := w.x.sn.out
	vAssert(len(out) == 1, "C02.one_datagram")
	if len(out) != 1 {
		return
	}
	first := vParseSN(out[0])
	vAssert(first.OK, "C02.wellformed")
	if first.OK && first.Typ == vtREGISTER {
		vReach("C02.registers_first")
		// a REGISTER only for a name that had no ID yet
		known := len(p.TopicName) == 2
		if _, ok := vRefID(re, ce, we, p.TopicName); ok {
			known = true
		}
		vAssert(!known, "C02.register_only_for_new_names")
		vAssert(string(first.Str) == p.TopicName, "C02.register_carries_name")
		_, pd := vRefName(ce, we, first.TopicID)
		_, rg := vRefLookup(re, first.TopicID)
		vAssert(vAnd(vAnd(first.TopicID >= 1, first.TopicID <= 0xFFFE), vAnd(!pd, !rg)), "C02.register_id_fresh")
		// the client accepts and acknowledges; the gateway then publishes
		w.toClient()
		w.toGateway()
		out = w.x.sn.out
		vAssert(len(out) == 1, "C02.publish_after_regack")
		if len(out) != 1 {
			return
		}
		pub := vParseSN(out[0])
		vAssert(vAnd(pub.OK, vAnd(pub.Typ == vtPUBLISH, vAnd(pub.Flags&3 == 0, pub.TopicID == first.TopicID))), "C02.publish_uses_registered_id")
	} else {
		vReach("C02.direct_publish")
		vAssert(first.Typ == vtPUBLISH, "C02.is_publish")
	}
	w.toClient()
	if p.Qos == 2 {
		// QoS 2 is delivered on PUBREL: PUBREC travels to the broker, which releases the message
		w.toGateway()
		rel := mqPkts.NewControlPacket(mqPkts.Pubrel).(*mqPkts.PubrelPacket)
		rel.MessageID = p.MessageID
		w.x.feedMQ(rel)
		w.toClient()
	}
	vRunUntilIdle()
	vAssert(len(got) == 1, "C02.client_delivers")
	if len(got) == 1 {
		vReach("C02.delivered")
		vAssert(got[0].topic == p.TopicName, "C02.client_resolves_broker_name")
		vAssert(vAnd(bytes.Equal(got[0].payload, p.Payload), vAnd(got[0].qos == p.Qos, got[0].retain == p.Retain)), "C02.same_payload_qos_retain")
	}
}

// vRefID: the ID the reference assigns to a name (registered first, then predefined).
func vRefID(re, ce, we []vEntry, name string) (uint16, bool) {
	for _, e := range re {
		if e.name == name {
			return e.id, true
		}
	}
	for _, e := range ce {
		if e.name == name {
			return e.id, true
		}
	}
	for _, e := range we {
		if e.name == name {
			if _, shadow := vRefLookup(ce, e.id); !shadow {
				return e.id, true
			}
		}
	}
	return 0, false
}
