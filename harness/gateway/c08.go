package gateway

import (
	"bytes"

	mqPkts "github.com/eclipse/paho.mqtt.golang/packets"

	snPkts1 "github.com/energomonitor/bisquitt/packets1"
)

// C08 / C09: connect-exchange histories. A fresh session, k client/broker
// events drawn from CONNECT, AUTH (PLAIN with well- or ill-formed data, other
// method), WILLTOPIC (empty or not), WILLMSG and the broker's CONNACK, all
// fields symbolic. The oracle is a reference state machine of the exchange.

type vExch struct {
	open      bool // a client CONNECT (non-zero keep-alive) has opened an exchange
	will      bool
	authOK    bool     // some AUTH of this exchange was PLAIN with well-formed data (symbolic)
	auths     [][]byte // data of the AUTH packets of this exchange
	authPlain []bool   // ... and whether each was PLAIN and well-formed
	wtReqSent bool
	wtSeen    bool
	wt        string
	wq        uint8
	wr        bool
	connects  int // MQTT CONNECTs sent in this exchange
	pending   bool // an MQTT CONNECT is waiting for the broker's CONNACK
}

// vSplitPlain: reference splitter for SASL PLAIN data: exactly three NUL-separated parts.
func vSplitPlain(d []byte) (u, p []byte, ok bool) {
	var cut []int
	for i, c := range d {
		if c == 0 {
			cut = append(cut, i)
		}
	}
	if len(cut) != 2 {
		return nil, nil, false
	}
	return d[cut[0]+1 : cut[1]], d[cut[1]+1:], true
}

func VH_C08_hist(k int, first int, second int) {
	auth := vNondetBool("auth")
	creds := vNondetBool("gw_creds")
	var user *string
	var pass []byte
	if creds {
		u := vNondetString("gw_user", 1)
		user = &u
		pass = vNondetBytes("gw_pass", 1)
	}
	x := vMkHandler(auth, user, pass, nil)
	var e vExch
	for i := 0; i < k; i++ {
		ev := first
		if i == 1 && second >= 0 {
			ev = second
		} else if i > 0 {
			ev = vChoose(9)
		}
		var in interface{}
		var err error
		switch ev {
		case 0:
			c := vSNPacket(vtCONNECT, 5).(*snPkts1.Connect)
			in = c
			err = x.feedSN(c)
		case 1: // AUTH, method of 5 bytes (PLAIN reachable), 3 data bytes
			a := vSNAuth(5, 3)
			in = a
			err = x.feedSN(a)
		case 2: // AUTH, method of 5 bytes, 4 data bytes
			a := vSNAuth(5, 4)
			in = a
			err = x.feedSN(a)
		case 3: // AUTH with a 1-byte method (never PLAIN)
			a := vSNAuth(1, 2)
			in = a
			err = x.feedSN(a)
		case 4:
			w := vSNPacket(vtWILLTOPIC, 2).(*snPkts1.WillTopic)
			in = w
			err = x.feedSN(w)
		case 5: // empty WILLTOPIC
			w := vSNPacket(vtWILLTOPIC, 0).(*snPkts1.WillTopic)
			in = w
			err = x.feedSN(w)
		case 6:
			w := vSNPacket(vtWILLMSG, 1).(*snPkts1.WillMsg)
			in = w
			err = x.feedSN(w)
		case 8: // empty WILLMSG
			w := vSNPacket(vtWILLMSG, 0).(*snPkts1.WillMsg)
			in = w
			err = x.feedSN(w)
		case 7: // the broker answers a pending CONNECT
			vAssume(e.pending)
			ca := mqPkts.NewControlPacket(mqPkts.Connack).(*mqPkts.ConnackPacket)
			ca.ReturnCode = vNondetU8("connack_rc")
			in = ca
			err = x.feedMQ(ca)
		}
		sn, mq := x.sn.take(), x.mq.take()
		vC0809Oracle(&e, auth, user, pass, in, err, sn, mq)
		if err != nil {
			return // the session ends
		}
	}
}

// vSNAuth: AUTH datagram with a method of mlen and data of dlen symbolic bytes.
func vSNAuth(mlen, dlen int) *snPkts1.Auth {
	body := []byte{vNondetU8("auth_reason"), byte(mlen)}
	body = append(body, vNondetBytes("auth_method", mlen)...)
	body = append(body, vNondetBytes("auth_data", dlen)...)
	return vSNDecode(vtAUTH, body).(*snPkts1.Auth)
}

// vPlainMatches: d is well-formed SASL PLAIN data (exactly three NUL-separated
// parts) whose second and third parts are user and pass. Written without
// branching on the data: lengths are concrete, so the split point is determined.
func vPlainMatches(d, user, pass []byte) bool {
	lx := len(d) - 2 - len(user) - len(pass)
	if lx < 0 {
		return false
	}
	ok := vAnd(d[lx] == 0, d[lx+1+len(user)] == 0)
	for i := 0; i < lx; i++ {
		ok = vAnd(ok, d[i] != 0)
	}
	for i, c := range user {
		ok = vAnd(ok, vAnd(c != 0, d[lx+1+i] == c))
	}
	for i, c := range pass {
		ok = vAnd(ok, vAnd(c != 0, d[lx+2+len(user)+i] == c))
	}
	return ok
}

// vPlainWellFormed: exactly two NUL bytes.
func vPlainWellFormed(d []byte) bool {
	var n uint8
	for _, c := range d {
		n += uint8(vIte(c == 0, 1, 0))
	}
	return n == 2
}

func vIsPlain(m string) bool { return m == "PLAIN" }

func vHasSN(sn [][]byte, typ byte) bool {
	for _, d := range sn {
		if r := vParseSN(d); r.OK && r.Typ == typ {
			return true
		}
	}
	return false
}

func vC0809Oracle(e *vExch, auth bool, gwUser *string, gwPass []byte, in interface{}, err error, sn, mq [][]byte) {
	// what went out
	var conn *vMQ
	nconn := 0
	for _, b := range mq {
		m := vParseMQTT(b)
		if m.OK && m.Typ == vmCONNECT {
			mm := m
			conn = &mm
			nconn++
		} else {
			vAssert(false, "C09.only_connect_goes_to_broker")
		}
	}
	wtReq, wmReq := vHasSN(sn, vtWILLTOPICREQ), vHasSN(sn, vtWILLMSGREQ)

	// reference state update for the input
	switch p := in.(type) {
	case *snPkts1.Connect:
		if p.Duration == 0 {
			vReach("C09.zero_keepalive")
			ok := len(sn) == 1 && len(mq) == 0
			if ok {
				r := vParseSN(sn[0])
				ok = vAnd(r.OK, vAnd(r.Typ == vtCONNACK, r.RC == 3))
			}
			vAssert(ok, "C09.zero_keepalive_not_supported")
			return
		}
		*e = vExch{open: true, will: p.Will}
	case *snPkts1.Auth:
		if len(p.Method) == 5 {
			good := vAnd(vIsPlain(p.Method), vPlainWellFormed(p.Data))
			if e.open {
				e.authOK = vOr(e.authOK, good)
				e.auths = append(e.auths, p.Data)
				e.authPlain = append(e.authPlain, good)
			}
			// a 5-byte method other than PLAIN is an unknown method
			if e.open && !vIsPlain(p.Method) {
				vReach("C08.unknown_method")
				ok := len(sn) == 1 && len(mq) == 0 && err != nil
				if ok {
					r := vParseSN(sn[0])
					ok = vAnd(r.OK, vAnd(r.Typ == vtCONNACK, r.RC == 3))
				}
				vAssert(ok, "C08.unknown_method_not_supported")
				return
			}
		} else if e.open {
			vReach("C08.unknown_method")
			ok := len(sn) == 1 && len(mq) == 0 && err != nil
			if ok {
				r := vParseSN(sn[0])
				ok = vAnd(r.OK, vAnd(r.Typ == vtCONNACK, r.RC == 3))
			}
			vAssert(ok, "C08.unknown_method_not_supported")
			return
		}
	}

	// ---- C09: ordering of the will protocol
	if wtReq {
		vReach("C09.willtopicreq")
		vAssert(vAnd(e.open, e.will), "C09.willtopicreq_only_with_will_flag")
		vAssert(vImplies(auth, e.authOK), "C09.willtopicreq_after_auth")
		_, fromConnect := in.(*snPkts1.Connect)
		_, fromAuth := in.(*snPkts1.Auth)
		vAssert(fromConnect || fromAuth, "C09.willtopicreq_answers_connect")
		e.wtReqSent = true
	}
	if c, ok := in.(*snPkts1.Connect); ok && c.Will && !auth && err == nil {
		vAssert(wtReq, "C09.will_flag_gets_willtopicreq")
	}
	wt, isWT := in.(*snPkts1.WillTopic)
	if wmReq {
		vReach("C09.willmsgreq")
		vAssert(vAnd(isWT, vAnd(vAnd(e.open, e.will), e.wtReqSent)), "C09.willmsgreq_only_after_willtopic")
	}
	if isWT && e.open && e.will && e.wtReqSent && !e.wtSeen && e.connects == 0 && err == nil {
		vAssert(wmReq, "C09.willtopic_gets_willmsgreq")
		e.wtSeen, e.wt, e.wq, e.wr = true, wt.WillTopic, wt.QOS, wt.Retain
	}
	wm, isWM := in.(*snPkts1.WillMsg)
	priorConnects := e.connects
	if conn != nil {
		vReach("C09.connect_sent")
		e.connects += nconn
		e.pending = true
		vAssert(e.open, "C09.connect_needs_client_connect")
		vAssert(e.connects <= 1, "C09.at_most_one_connect")
		if e.will {
			vAssert(vAnd(isWM, e.wtSeen), "C09.will_connect_only_after_willmsg")
			if isWM && e.wtSeen {
				if e.wt == "" {
					vAssert(conn.CFlags&0x04 == 0, "C09.connect_carries_will")
				} else {
					flags := vAnd(conn.CFlags&0x04 != 0, vAnd((conn.CFlags>>3)&3 == e.wq, (conn.CFlags&0x20 != 0) == e.wr))
					vAssert(vAnd(flags, vAnd(string(conn.WillTopic) == e.wt, bytes.Equal(conn.WillMsg, wm.WillMsg))), "C09.connect_carries_will")
				}
			}
		} else {
			vAssert(conn.CFlags&0x04 == 0, "C09.no_will_without_flag")
		}
		// ---- C08: credentials
		if auth {
			vAssert(e.authOK, "C08.connect_needs_plain_auth")
			// the CONNECT carries exactly the credentials of a well-formed PLAIN AUTH of this exchange
			match := false
			for i, d := range e.auths {
				match = vOr(match, vAnd(e.authPlain[i], vPlainMatches(d, conn.User, conn.Pass)))
			}
			vAssert(vAnd(conn.CFlags&0xC0 == 0xC0, match), "C08.connect_carries_auth_credentials")
		} else {
			if gwUser != nil {
				vAssert(vAnd(conn.CFlags&0xC0 == 0xC0, vAnd(string(conn.User) == *gwUser, bytes.Equal(conn.Pass, gwPass))), "C08.connect_carries_gateway_credentials")
			} else {
				vAssert(conn.CFlags&0xC0 == 0, "C08.connect_carries_gateway_credentials")
			}
		}
	}
	if isWM && e.open && e.will && e.wtSeen && priorConnects == 0 && err == nil {
		vReach("C09.willmsg_in_turn")
		vAssert(conn != nil, "C09.willmsg_gets_connect")
	}
	if !e.will && e.open {
		vAssert(vAnd(!wtReq, !wmReq), "C09.no_will_requests_without_flag")
	}
	// ---- C09: the client's CONNACK reflects the broker's answer
	if ca, ok := in.(*mqPkts.ConnackPacket); ok {
		vReach("C09.broker_connack")
		e.pending = false
		defer func() { e.open = false }() // the exchange is over (accepted or refused)
		okc := len(sn) == 1
		if okc {
			r := vParseSN(sn[0])
			okc = vAnd(vAnd(r.OK, r.Typ == vtCONNACK), vAnd((r.RC == 0) == (ca.ReturnCode == 0), vOr(r.RC == 0, r.RC == 1)))
		}
		vAssert(okc, "C09.connack_mirrors_broker")
	}
}

// VH_C08_session(will): the same exchange through the real run(), i.e. through
// the real snReceiveLoop with its receive buffer, datagram by datagram: CONNECT
// (with a will when will = 1), AUTH PLAIN with symbolic user / password bytes,
// WILLTOPIC, WILLMSG. The MQTT CONNECT that goes out must carry exactly the
// credentials and the will of the datagrams received - whatever was received
// after them.
func VH_C08_session(will int) {
	s := vStartSessionOpt(true, nil, nil, nil, true)
	user, pass := vNondetString("user", 2), vNondetBytes("pass", 3)
	vAssume(vAnd(vAnd(user[0] != 0, user[1] != 0), vAnd(pass[0] != 0, vAnd(pass[1] != 0, pass[2] != 0))))
	s.clientSends(snPkts1.NewConnect(vNondetU16("keepalive"), []byte("c"), will == 1, true))
	s.clientSends(snPkts1.NewAuthPlain(user, pass))
	// (the later datagrams are longer than the AUTH datagram: they cover its place in any reused buffer)
	wt, wm := vNondetString("willtopic", 2), vNondetBytes("willmsg", 20)
	if will == 1 {
		vAssume(!vHasWild([]byte(wt)))
		s.clientSends(snPkts1.NewWillTopic(wt, 1, false))
		s.clientSends(snPkts1.NewWillMsg(wm))
	}
	vAssume(!s.done)
	vAssume(len(s.mq.out) == 1)
	vReach("C08.session_connect_sent")
	m := vParseMQTT(s.mq.out[0])
	ok := vAnd(m.OK, m.Typ == vmCONNECT)
	vAssert(vAnd(ok, vAnd(string(m.User) == user, bytes.Equal(m.Pass, pass))), "C08.connect_carries_auth_credentials")
	if will == 1 {
		vAssert(vAnd(ok, vAnd(string(m.WillTopic) == wt, bytes.Equal(m.WillMsg, wm))), "C09.connect_carries_will")
	}
}
