package gateway

import (
	"bytes"
	"time"

	mqPkts "github.com/eclipse/paho.mqtt.golang/packets"

	snPkts1 "github.com/energomonitor/bisquitt/packets1"
	"github.com/energomonitor/bisquitt/util"
)

// C11: sleeping clients get their traffic buffered and delivered on wake.

func vC11Handler() *vH {
	x := vMkHandler(false, nil, nil, nil)
	x.h.clientID, x.h.keepAlive = "c", 10
	x.h.state.Set(util.StateActive)
	x.h.registeredTopics.Store(uint16(5), "reg/topic")
	x.h.topicID = util.VSeqState(1, 0xFFFE, 6, false)
	return x
}

// vC11Event: a broker event with symbolic fields (kind: 0 PUBLISH QoS 0 short,
// 1 PUBLISH QoS 1 registered, 2 PUBLISH QoS 0 new topic (REGISTER), 3 PUBLISH QoS 2 short, 4 PINGRESP, 5 UNSUBACK).
type vC11Ev struct {
	kind    int
	id      uint16
	payload []byte
	retain  bool
}

func vC11Pick(kind int) vC11Ev {
	return vC11Ev{kind, vNondetU16("ev_id"), vNondetBytes("ev_payload", 1), vNondetBool("ev_retain")}
}

func (e vC11Ev) packet() mqPkts.ControlPacket {
	switch e.kind {
	case 4:
		return mqPkts.NewControlPacket(mqPkts.Pingresp)
	case 5:
		u := mqPkts.NewControlPacket(mqPkts.Unsuback).(*mqPkts.UnsubackPacket)
		u.MessageID = e.id
		return u
	}
	p := mqPkts.NewControlPacket(mqPkts.Publish).(*mqPkts.PublishPacket)
	p.MessageID, p.Payload, p.Retain = e.id, e.payload, e.retain
	switch e.kind {
	case 0:
		p.Qos, p.TopicName = 0, "ab"
	case 1:
		p.Qos, p.TopicName = 1, "reg/topic"
	case 2:
		p.Qos, p.TopicName = 0, "new/topic"
	case 3:
		p.Qos, p.TopicName = 2, "ab"
	}
	return p
}

// VH_C11_cycle(k1, k2, second): the client goes to sleep; broker events k1, k2
// arrive; the client wakes with PINGREQ. A twin session that never slept
// receives the same events: what the sleeper gets on wake-up is exactly what the
// twin got, in order, each once, then one PINGRESP. With second = 1 one more
// broker PUBLISH arrives after that PINGRESP: the client is asleep again, so
// nothing may be written.
func VH_C11_cycle(k1, k2, second int) {
	x, twin := vC11Handler(), vC11Handler()
	d := snPkts1.NewDisconnect(vNondetU16("duration"))
	vAssume(d.Duration != 0)
	vAssume(x.feedSN(d) == nil)
	out := x.sn.take()
	vAssert(vAnd(len(out) == 1, vCountSN(out, vtDISCONNECT) == 1), "C11.sleep_request_answered")
	evs := []vC11Ev{vC11Pick(k1)}
	if k2 >= 0 {
		evs = append(evs, vC11Pick(k2))
	}
	var expect [][]byte
	for _, e := range evs {
		x.feedMQ(e.packet())
		vAssert(len(x.sn.out) == 0, "C11.nothing_sent_while_asleep")
		if e.kind == 4 {
			continue // PINGRESP answers the gateway's own sleep pings: never passed to a sleeping client
		}
		twin.feedMQ(e.packet())
		expect = append(expect, twin.sn.take()...)
	}
	// wake-up
	vAssume(x.feedSN(snPkts1.NewPingreq(vWakeID())) == nil)
	got := x.sn.take()
	vReach("C11.woke_up")
	vAssert(len(got) == len(expect)+1, "C11.buffered_delivered_once_then_pingresp")
	if len(got) == len(expect)+1 {
		ok := true
		for i := range expect {
			ok = vAnd(ok, bytes.Equal(got[i], expect[i]))
		}
		vAssert(ok, "C11.buffered_in_original_order")
		last := vParseSN(got[len(got)-1])
		vAssert(vAnd(last.OK, last.Typ == vtPINGRESP), "C11.followed_by_pingresp")
	}
	if second == 1 {
		vLabel("second_cycle", 1)
		e := vC11Pick(0)
		x.feedMQ(e.packet())
		vReach("C11.second_cycle")
		vAssert(len(x.sn.out) == 0, "C11.asleep_again_after_pingresp")
	}
}

// VH_C11_timed(kind): the same cycle in virtual time: the client sleeps for a
// symbolic while (up to 3.5 s; RetryDelay 1 s, RetryCount 2) after one broker
// PUBLISH (kind 1: QoS 1, kind 3: QoS 2) arrived. The gateway's retry timers
// run meanwhile. On wake-up the client must get the PUBLISH once.
func VH_C11_timed(kind int) {
	x := vC11Handler()
	d := snPkts1.NewDisconnect(60)
	vAssume(x.feedSN(d) == nil)
	x.sn.take()
	e := vC11Pick(kind)
	x.feedMQ(e.packet())
	w := vNondetDelay("asleep_for")
	vAssume(vAnd(w > 0, w < int64(3500*time.Millisecond)))
	vLabel("slept_past_retry", vB2U(w >= int64(time.Second)))
	vSleepUntil(vNow() + w)
	vAssert(len(x.sn.out) == 0, "C11.nothing_sent_while_asleep")
	vAssume(x.feedSN(snPkts1.NewPingreq(vWakeID())) == nil)
	got := x.sn.take()
	vReach("C11.woke_up_later")
	vAssert(vCountSN(got, vtPUBLISH) == 1, "C11.timed_delivered_once")
	last := vParseSN(got[len(got)-1])
	vAssert(vAnd(last.OK, last.Typ == vtPINGRESP), "C11.followed_by_pingresp")
}

// vWakeID: the client ID field of a wake-up PINGREQ. The property speaks of a
// client that "wakes with PINGREQ": the gateway knows the client from the
// connection, so a PINGREQ without the (optional) client ID field wakes it too.
// Symbolic choice between a present and an empty field.
func vWakeID() []byte {
	if vChoose(2) == 1 {
		vReach("C11.wake_without_client_id")
		return nil
	}
	return []byte("c")
}
