package gateway

import (
	"bytes"
	"context"
	"net"

	mqPkts "github.com/eclipse/paho.mqtt.golang/packets"
	"github.com/pion/udp"
	"golang.org/x/sync/errgroup"

	snPkts "github.com/energomonitor/bisquitt/packets"
	snPkts1 "github.com/energomonitor/bisquitt/packets1"
	"github.com/energomonitor/bisquitt/topics"
	"github.com/energomonitor/bisquitt/util"
)

// C15: client sessions are isolated from each other. Non-interference by
// differential execution: session B runs a probe history twice, once alone (B1,
// with private copies of the configuration and of the predefined-topics map)
// and once (B2) sharing the *handlerConfig and the PredefinedTopics map object
// with another session A, exactly as ListenAndServe shares them. A starts in an
// arbitrary state (state, client ID - possibly B's -, keep-alive, registry all
// symbolic), receives an arbitrary client packet and an arbitrary broker packet
// and is then terminated, at a chosen position of B2's history. What B sends,
// accepts and refuses must be identical in both runs.

func vMkHandlerShared(cfg *handlerConfig, pre topics.PredefinedTopics) *vH {
	h := newHandler(cfg, pre, util.NoOpLogger{})
	x := &vH{h: h, sn: &vRecConn{}, mq: &vRecConn{}}
	x.ctx, x.cancel = context.WithCancel(context.Background())
	var gctx context.Context
	h.group, gctx = errgroup.WithContext(x.ctx)
	h.snConn = util.NewConnWithContext(context.Background(), x.sn, connTimeout)
	h.mqttConn = util.NewConnWithContext(gctx, x.mq, connTimeout)
	return x
}

type vC15Step struct {
	sn  snPkts.Packet
	mq  mqPkts.ControlPacket
}

type vC15Out struct {
	sn, mq [][]byte
	failed bool
}

func vC15Run(x *vH, st vC15Step) vC15Out {
	var err error
	panicked := vPanics(func() {
		if st.sn != nil {
			err = x.feedSN(st.sn)
		} else {
			err = x.feedMQ(st.mq)
		}
	})
	return vC15Out{x.sn.take(), x.mq.take(), err != nil || panicked}
}

func vC15Same(a, b vC15Out) bool {
	ok := vAnd(a.failed == b.failed, vAnd(len(a.sn) == len(b.sn), len(a.mq) == len(b.mq)))
	if len(a.sn) == len(b.sn) {
		for i := range a.sn {
			ok = vAnd(ok, bytes.Equal(a.sn[i], b.sn[i]))
		}
	}
	if len(a.mq) == len(b.mq) {
		for i := range a.mq {
			ok = vAnd(ok, bytes.Equal(a.mq[i], b.mq[i]))
		}
	}
	return ok
}

// vC15Probe: B's history: client ID "b", fixed names, symbolic keep-alive, flags, message IDs, predefined topic ID, password and payload bytes.
func vC15Probe(auth, will bool) []vC15Step {
	var out []vC15Step
	c := snPkts1.NewConnect(vNondetU16("b_keepalive"), []byte("b"), will, vNondetBool("b_clean"))
	vAssume(c.Duration != 0)
	out = append(out, vC15Step{sn: c})
	if auth {
		out = append(out, vC15Step{sn: snPkts1.NewAuthPlain("u", vNondetBytes("b_pass", 1))})
	}
	if will {
		// the MQTT CONNECT goes out only after the will exchange: a window in which
		// B's pending CONNECT packet (credentials included) sits in memory
		out = append(out, vC15Step{sn: snPkts1.NewWillTopic("wt", 0, false)})
		out = append(out, vC15Step{sn: snPkts1.NewWillMsg(vNondetBytes("b_will", 1))})
	}
	ca := mqPkts.NewControlPacket(mqPkts.Connack).(*mqPkts.ConnackPacket)
	ca.ReturnCode = mqPkts.Accepted
	out = append(out, vC15Step{mq: ca})
	r := snPkts1.NewRegister(0, "rn")
	r.SetMessageID(1)
	out = append(out, vC15Step{sn: r})
	p := snPkts1.NewPublish(vNondetU16("b_pubid"), vNondetBytes("b_payload", 1), false, 0, false, snPkts1.TIT_PREDEFINED)
	out = append(out, vC15Step{sn: p})
	s := snPkts1.NewSubscribe("sn", 0, false, 0, snPkts1.TIT_STRING)
	s.SetMessageID(2)
	out = append(out, vC15Step{sn: s})
	bp := mqPkts.NewControlPacket(mqPkts.Publish).(*mqPkts.PublishPacket)
	bp.TopicName, bp.Payload = "tn", vNondetBytes("b_msg", 1)
	out = append(out, vC15Step{mq: bp})
	return out
}

func vCopyPre(p topics.PredefinedTopics) topics.PredefinedTopics {
	out := topics.PredefinedTopics{}
	for cid, m := range p {
		out[cid] = map[uint16]string{}
		for id, n := range m {
			out[cid][id] = n
		}
	}
	return out
}

// VH_C15_isolation(aTyp, aLen, mTyp, pos, mode): mode bit 0: B connects with a
// will (its MQTT CONNECT is sent only after WILLTOPIC/WILLMSG); mode bit 1: A
// opens a connect exchange before its packet. A's client packet has MQTT-SN type
// aTyp with aLen symbolic body bytes (aTyp < 0: none), A's broker packet has
// MQTT type mTyp (0: none); A acts before step pos of B's history.
func VH_C15_isolation(aTyp, aLen, mTyp, pos, mode int) {
	auth := vNondetBool("auth")
	var user *string
	var pass []byte
	{
		// the gateway's own broker credentials: shared through *handlerConfig
		u := "g" + vNondetString("gw_user", 1)
		user, pass = &u, vNondetBytes("gw_pass", 1)
	}
	mk := func() (*handlerConfig, topics.PredefinedTopics) {
		var u2 *string
		if user != nil {
			c := *user
			u2 = &c
		}
		cfg := &handlerConfig{AuthEnabled: auth, RetryDelay: 1000000000, RetryCount: 2, MqttUser: u2, MqttPassword: append([]byte{}, pass...)}
		return cfg, nil
	}
	idB, idA, idW := uint16(7), uint16(8), uint16(9)
	pre := topics.PredefinedTopics{"b": {idB: "pb"}, "a": {idA: "pa"}, "*": {idW: "pw"}}
	cfg1, _ := mk()
	cfgS, _ := mk()
	b1 := vMkHandlerShared(cfg1, vCopyPre(pre))
	b2 := vMkHandlerShared(cfgS, pre)
	a := vMkHandlerShared(cfgS, pre)
	probe := vC15Probe(auth, mode&1 != 0)
	// B alone
	var ref []vC15Out
	for _, st := range probe {
		ref = append(ref, vC15Run(b1, st))
	}
	// A's pre-state: arbitrary
	ast := util.ClientState(vNondetU32("a_state"))
	vAssume(ast <= util.StateAwake)
	a.h.state.Set(ast)
	a.h.clientID = vNondetString("a_clientid", 1)
	a.h.keepAlive = vNondetU16("a_keepalive")
	vRegistry(a.h, 1, 2)
	// B with A acting in between
	for i, st := range probe {
		if i == pos {
			if mode&2 != 0 {
				// A opens a connect exchange of its own first (so that AUTH / WILL* packets are acted on)
				a.h.state.Set(util.StateDisconnected)
				vC15Run(a, vC15Step{sn: snPkts1.NewConnect(60, []byte("a"), vNondetBool("a_will"), true)})
			}
			if aTyp >= 0 {
				vC15Run(a, vC15Step{sn: vSNPacket(byte(aTyp), aLen)})
			}
			if mTyp > 0 {
				vC15Run(a, vC15Step{mq: vMQEvent(mTyp, 2)})
			}
			a.cancel()
			vReach("C15.a_acted")
		}
		got := vC15Run(b2, st)
		vAssert(vC15Same(ref[i], got), "C15.b_unaffected")
	}
	vReach("C15.probe_done")
}

// ---------------------------------------------------------------------------
// the accept loop: ListenAndServe with a stub listener (engine: newUDPListener,
// net.ResolveUDPAddr and (*net.Dialer).DialContext are substituted)

type vStubAddr struct{ s string }

func (a vStubAddr) Network() string { return "udp" }
func (a vStubAddr) String() string  { return a.s }

type vAddrConn struct {
	*vChanConn
	addr vStubAddr
}

func (c *vAddrConn) RemoteAddr() net.Addr { return c.addr }

type vStubListener struct {
	conns  chan net.Conn
	closed bool
}

func (l *vStubListener) Accept() (net.Conn, error) {
	c, ok := <-l.conns
	if !ok {
		return nil, udp.ErrClosedListener
	}
	return c, nil
}
func (l *vStubListener) Close() error {
	if !l.closed {
		l.closed = true
		close(l.conns)
	}
	return nil
}
func (l *vStubListener) Addr() net.Addr { return vStubAddr{"listener"} }

var vTheListener *vStubListener
var vBrokerConns []*vChanConn

func vStubListen(ctx context.Context, address *net.UDPAddr) (net.Listener, error) {
	return vTheListener, nil
}

func vStubResolveUDP(network, address string) (*net.UDPAddr, error) { return &net.UDPAddr{}, nil }

func vDialFresh(d *net.Dialer, ctx context.Context, network, address string) (net.Conn, error) {
	c := vNewChanConn(true)
	c.lazy = true
	vBrokerConns = append(vBrokerConns, c)
	return c, nil
}

// VH_C15_accept(k): k client connections accepted by the real ListenAndServe.
// Each gets its own session and its own broker connection carrying its own
// client ID; one session ending (undecodable datagram) leaves the others working.
func VH_C15_accept(k int) {
	vTheListener = &vStubListener{conns: make(chan net.Conn, 4)}
	vBrokerConns = nil
	gw := NewGateway(util.NoOpLogger{}, &GatewayConfig{MqttBrokerAddress: &net.TCPAddr{}, RetryDelay: 1000000000, RetryCount: 2, PredefinedTopics: topics.PredefinedTopics{}})
	ctx, cancel := context.WithCancel(context.Background())
	ended := false
	vGo(func() {
		gw.ListenAndServe(ctx, "gw")
		ended = true
	})
	vRunUntilIdle()
	var conns []*vAddrConn
	poll := func() {
		for _, c := range conns {
			select {
			case c.kick <- struct{}{}:
			default:
			}
		}
		for _, c := range vBrokerConns {
			select {
			case c.kick <- struct{}{}:
			default:
			}
		}
		vRunUntilIdle()
	}
	ids := []string{"c0", "c1", "c2"}
	for i := 0; i < k; i++ {
		c := &vAddrConn{vNewChanConn(false), vStubAddr{ids[i]}}
		c.lazy = true
		conns = append(conns, c)
		vTheListener.conns <- c
		vRunUntilIdle()
		b, _ := snPkts1.NewConnect(vNondetU16("keepalive"), []byte(ids[i]), false, true).Pack()
		c.in <- b
		vRunUntilIdle()
		vAssert(len(vBrokerConns) == i+1, "C15.own_broker_connection")
		if len(vBrokerConns) == i+1 {
			out := vBrokerConns[i].out
			ok := len(out) == 1
			if ok {
				m := vParseMQTT(out[0])
				ok = vAnd(vAnd(m.OK, m.Typ == vmCONNECT), string(m.ClientID) == ids[i])
			}
			vAssume(ok) // (keep-alive 0 is refused: no CONNECT)
			for j := 0; j < i; j++ {
				vAssert(len(vBrokerConns[j].out) == 1, "C15.others_broker_connection_untouched")
			}
		}
	}
	vReach("C15.all_connected")
	// every broker's CONNACK reaches its own client, and only that client
	for i := 0; i < k; i++ {
		ca := mqPkts.NewControlPacket(mqPkts.Connack).(*mqPkts.ConnackPacket)
		ca.ReturnCode = mqPkts.Accepted
		var buf bytes.Buffer
		ca.Write(&buf)
		before := make([]int, k)
		for j := range conns {
			before[j] = len(conns[j].out)
		}
		vBrokerConns[i].in <- buf.Bytes()
		vRunUntilIdle()
		for j := range conns {
			want := before[j]
			if j == i {
				want++
			}
			vAssert(len(conns[j].out) == want, "C15.reply_goes_to_its_own_client")
		}
	}
	// session 0 ends on an undecodable datagram
	conns[0].in <- []byte{0x05, 0x0c, 0x00}
	vRunUntilIdle()
	poll()
	poll()
	vAssert(vBrokerConns[0].closed >= 1, "C15.ended_session_closes_its_broker_connection")
	for i := 1; i < k; i++ {
		vAssert(vAnd(vBrokerConns[i].closed == 0, conns[i].closed == 0), "C15.other_sessions_survive")
		// and still work: a PINGREQ of that client reaches its own broker connection only
		nb := make([]int, k)
		for j := range vBrokerConns {
			nb[j] = len(vBrokerConns[j].out)
		}
		pb, _ := snPkts1.NewPingreq(nil).Pack()
		conns[i].in <- pb
		vRunUntilIdle()
		for j := range vBrokerConns {
			want := nb[j]
			if j == i {
				want++
			}
			vAssert(len(vBrokerConns[j].out) == want, "C15.request_goes_to_its_own_broker_connection")
		}
	}
	cancel()
	vRunUntilIdle()
	poll()
	poll()
	vAssert(ended, "C15.accept_loop_ends_on_shutdown")
	vReach("C15.accept_done")
}
