package gateway

import (
	"time"

	snPkts1 "github.com/energomonitor/bisquitt/packets1"
)

// C12: broker keep-alive is kept for connected and sleeping clients.
// The real run() (session.go); virtual time; the client meets its own
// obligations: a packet within every keep-alive period K while active, a
// wake-up within every sleep duration it announced.

// VH_C12_sleep(k, cycles, dfix): keep-alive K = k seconds (dfix > 0: every announced sleep duration is dfix seconds). The client connects, stays
// active for a symbolic while (< K), then sleeps `cycles` times: DISCONNECT(d)
// with d symbolic (1..3K seconds), wake-up PINGREQ after a symbolic time <= d.
// Every gap between two consecutive packets to the broker, and from the last
// one to the end of the history, is at most 1.5 K.
func VH_C12_sleep(k int, cycles int, dfix int) {
	s := vStartSessionOpt(false, nil, nil, nil, true)
	s.reach(stActive, uint16(k), 0)
	K := int64(k) * int64(time.Second)
	limit := K + K/2
	vAssume(!s.done)
	idle := vNondetDelay("active_for")
	vAssume(vAnd(idle > 0, idle < K))
	vSleepUntil(vNow() + idle)
	for c := 0; c < cycles; c++ {
		d := vNondetU16("sleep_duration")
		vAssume(vAnd(d >= 1, int(d) <= 3*k))
		if dfix > 0 {
			// (cheaper instances: the announced duration is fixed, the wake-up time stays symbolic)
			vAssume(int(d) == dfix)
		}
		vLabel("d", uint64(d))
		vLabel("k", uint64(k))
		vLabel("no_pinger", vB2U(int(d) <= k))
		nBefore := len(s.mq.out)
		T := vNow()
		s.clientSends(snPkts1.NewDisconnect(d))
		D := int64(d) * int64(time.Second)
		w := vNondetDelay("wake_after")
		vAssume(vAnd(w > 0, w <= D))
		vSleepUntil(vNow() + w)
		// the mechanism: with d > K the sleep pinger pings the broker every K, counted from the sleep request
		if int(d) > k {
			vReach("C12.pinger_ran")
			n := 0
			for i := nBefore; i < len(s.mq.out); i++ {
				n++
				vAssert(vTimeEq(s.mq.outAt[i], T+int64(n)*K), "C12.pinger_period")
			}
			vAssert(vTimeLe(T+w-K, s.lastMqAt(T)), "C12.pinger_keeps_pinging")
		}
		s.clientSends(snPkts1.NewPingreq([]byte("c")))
	}
	end := vNow()
	vAssume(!s.done)
	vReach("C12.history_done")
	// gaps between consecutive packets to the broker
	last := int64(-1)
	for i := range s.mq.out {
		at := s.mq.outAt[i]
		if last >= 0 {
			vAssert(vTimeLe(at-last, limit), "C12.gap_between_broker_packets")
		}
		last = at
	}
	vAssert(vTimeLe(end-last, limit), "C12.gap_until_end")
}

// VH_C12_active(k): an active client that sends PINGREQ every K (its own
// obligation): each is forwarded, so the broker sees a packet every K.
func VH_C12_active(k int) {
	s := vStartSessionOpt(false, nil, nil, nil, true)
	s.reach(stActive, uint16(k), 0)
	K := int64(k) * int64(time.Second)
	for i := 0; i < 3; i++ {
		w := vNondetDelay("ping_after")
		vAssume(vAnd(w > 0, w <= K))
		vSleepUntil(vNow() + w)
		s.clientSends(snPkts1.NewPingreq(nil))
	}
	end := vNow()
	vReach("C12.active_done")
	last := int64(-1)
	for i := range s.mq.out {
		at := s.mq.outAt[i]
		if last >= 0 {
			vAssert(vTimeLe(at-last, K+K/2), "C12.gap_between_broker_packets")
		}
		last = at
	}
	vAssert(vTimeLe(end-last, K+K/2), "C12.gap_until_end")
}
