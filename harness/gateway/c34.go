package gateway

import (
	"time"

	mqPkts "github.com/eclipse/paho.mqtt.golang/packets"

	snPkts1 "github.com/energomonitor/bisquitt/packets1"
)

// C34: sessions of vanished clients are reaped. The real run() with a model
// broker that enforces MQTT keep-alive (closes the connection 1.5 x keep-alive
// after the last packet it received) and drops connections on which no CONNECT
// arrives within vBrokerGrace. The client stops sending at a symbolic instant.

const vBrokerGrace = 10 * time.Second

type vBrokerModel struct {
	closedAt  int64
	connected bool
	keepAlive uint16
	last      int64
	notify    chan struct{}
}

// startBroker: the model broker as a task. It sees only what the gateway
// writes to the broker connection.
func (s *vSession) startBroker() *vBrokerModel {
	b := &vBrokerModel{closedAt: -1, last: vNow(), notify: make(chan struct{}, 1)}
	s.mq.onWrite = func(p []byte, at int64) {
		if r := vParseMQTT(p); r.OK && r.Typ == 1 {
			b.connected, b.keepAlive = true, r.KeepAlive
		}
		b.last = at
		select {
		case b.notify <- struct{}{}:
		default:
		}
	}
	vGo(func() {
		for !s.done {
			limit := int64(vBrokerGrace)
			if b.connected {
				limit = int64(b.keepAlive) * int64(time.Second) * 3 / 2
			}
			w := b.last + limit - vNow()
			if w <= 0 {
				b.closedAt = vNow()
				close(s.mq.in)
				return
			}
			t := time.NewTimer(time.Duration(w))
			select {
			case <-b.notify:
				t.Stop()
			case <-t.C:
			}
		}
	})
	return b
}

// runUntilDone lets virtual time pass until the session ended or `until`.
func (s *vSession) runUntilDone(until int64, maxSteps int) {
	for i := 0; i < maxSteps && !s.done; i++ {
		if vNow() >= until {
			return
		}
		if !vAdvance() {
			return
		}
		s.poll()
		s.poll()
	}
}

// VH_C34_vanish(state, k): keep-alive k seconds.
// state 0: the peer never sends anything            -> broker drops the unused connection (grace)
// state 1: CONNECT with will, then silence          -> connect timeout
// state 2: active, last packet at a symbolic time   -> 1.5 K after it
// state 3: asleep for d (symbolic, 1..3K s)         -> d + 1.5 K after the sleep request
// state 4: asleep for d, woke up after w <= d, then silence      -> d + 1.5 K after the wake-up (asleep again)
// state 6: asleep for d, woke up, CONNECT (active again), silence -> 1.5 K after the CONNECT
// state 5: asleep d1, woke up, asleep again for d2, silence         -> d2 + 1.5 K after the second request
func VH_C34_vanish(state, k int) {
	s := vStartSessionOpt(false, nil, nil, nil, false)
	s.sn.lazy, s.mq.lazy = true, true
	b := s.startBroker()
	K := int64(k) * int64(time.Second)
	poll := 2 * int64(connTimeout)
	var bound int64
	accept := func() {
		ca := mqPkts.NewControlPacket(mqPkts.Connack).(*mqPkts.ConnackPacket)
		ca.ReturnCode = mqPkts.Accepted
		s.brokerSends(ca)
	}
	sleepFor := func(lbl string) int64 {
		d := vNondetU16(lbl)
		vAssume(vAnd(d >= 1, int(d) <= 3*k))
		s.clientSends(snPkts1.NewDisconnect(d))
		return int64(d) * int64(time.Second)
	}
	switch state {
	case 0:
		bound = vNow() + int64(vBrokerGrace)
	case 1:
		s.clientSends(snPkts1.NewConnect(uint16(k), []byte("c"), true, true))
		bound = vNow() + int64(connectTransactionTimeout)
	default:
		s.clientSends(snPkts1.NewConnect(uint16(k), []byte("c"), false, true))
		accept()
		idle := vNondetDelay("active_for")
		vAssume(vAnd(idle > 0, idle < K))
		vSleepUntil(vNow() + idle)
		vAssume(!s.done)
		switch state {
		case 2:
			s.clientSends(snPkts1.NewPublish(uint16('a')<<8|uint16('b'), []byte("x"), false, 0, false, snPkts1.TIT_SHORT))
			bound = vNow() + K + K/2
		case 3:
			t := vNow()
			bound = t + sleepFor("d") + K + K/2
		case 4, 5, 6:
			d1 := sleepFor("d")
			vLabel("d_gt_k", vB2U(d1 > K))
			w := vNondetDelay("wake_after")
			vAssume(vAnd(w > 0, w <= d1))
			vSleepUntil(vNow() + w)
			vAssume(!s.done)
			s.clientSends(snPkts1.NewPingreq([]byte("c")))
			// after the wake-up PINGRESP the client counts as asleep again, for the duration it announced
			bound = vNow() + d1 + K + K/2
			if state == 6 {
				s.clientSends(snPkts1.NewConnect(uint16(k), []byte("c"), false, true))
				bound = vNow() + K + K/2
			}
			if state == 5 {
				t := vNow()
				bound = t + sleepFor("d2") + K + K/2
			}
		}
	}
	vAssume(!s.done)
	vReach("C34.client_vanishes")
	s.runUntilDone(bound+4*K+int64(vBrokerGrace), 400)
	vAssert(s.done, "C34.session_ends")
	vAssert(!s.panicked, "C34.no_panic")
	if s.done {
		vReach("C34.reaped")
		vAssert(vTimeLe(s.doneAt, bound+poll), "C34.ends_within_bound")
		vAssert(s.mq.closed >= 1, "C34.broker_connection_closed")
	}
	_ = b
}
