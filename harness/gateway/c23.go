package gateway

import (
	mqPkts "github.com/eclipse/paho.mqtt.golang/packets"

	"github.com/energomonitor/bisquitt/util"
)

// VH_C23_bigpub(plen, tlen): the broker publishes plen symbolic bytes on a
// topic of tlen bytes to an active client (tlen == 2: short topic, sent at
// once; otherwise a new topic: the REGISTER is what goes out).
func VH_C23_bigpub(plen, tlen int) {
	x := vMkHandler(false, nil, nil, nil)
	x.h.clientID = "c"
	x.h.keepAlive = 10
	x.h.state.Set(util.StateActive)
	p := mqPkts.NewControlPacket(mqPkts.Publish).(*mqPkts.PublishPacket)
	p.Qos = vNondetU8("qos") & 1
	p.MessageID = vNondetU16("msgid")
	p.TopicName = vNondetString("topic", tlen)
	p.Payload = vNondetBytes("payload", plen)
	for i := 0; i < tlen && i < 4; i++ {
		vAssume(vAnd(p.TopicName[i] != '+', p.TopicName[i] != '#'))
	}
	vLabel("payload_len", uint64(plen))
	vLabel("topic_len", uint64(tlen))
	err := x.feedMQ(p)
	_ = err
	for _, d := range x.sn.take() {
		vReach("C23.big_sent")
		vAssert(len(d) <= 8192, "C23.big_size")
		r := vParseSN(d)
		vAssert(vAnd(r.OK, r.LenFld == len(d)), "C23.big_length_field")
	}
}
