package gateway

import (
	"bytes"

	snPkts1 "github.com/energomonitor/bisquitt/packets1"
	"github.com/energomonitor/bisquitt/util"
)

// vRefName: predefined resolution by the reference: client entry, else "*" entry.
func vRefName(ce, we []vEntry, id uint16) (string, bool) {
	if n, ok := vRefLookup(ce, id); ok {
		return n, true
	}
	return vRefLookup(we, id)
}

// vRefTopic: what (type, id) denotes at this moment, by the reference.
func vRefTopic(tit uint8, id uint16, re, ce, we []vEntry) (string, bool) {
	switch tit {
	case 0:
		return vRefLookup(re, id)
	case 1:
		return vRefName(ce, we, id)
	case 2:
		return string([]byte{byte(id >> 8), byte(id)}), true
	}
	return "", false
}

// VH_C01_publish(plen, nameLen, nc, nw, nr): one client PUBLISH step from an
// arbitrary state: client state, auth mode, all PUBLISH fields and payload
// bytes, registry (nr entries) and predefined configuration (nc + nw entries)
// are symbolic.
func VH_C01_publish(plen, nameLen, nc, nw, nr int) {
	auth := vNondetBool("auth")
	cid := vNondetString("clientid", 1)
	vAssume(cid != "*")
	pre, ce, we := vPredef(cid, nc, nw, nameLen)
	x := vMkHandler(auth, nil, nil, pre)
	x.h.clientID = cid
	re := vRegistry(x.h, nr, nameLen)
	st := vState()
	x.h.state.Set(st)

	pkt := vSNPacket(vtPUBLISH, 5+plen).(*snPkts1.Publish)
	vLabel("tit", uint64(pkt.TopicIDType))
	vLabel("qos", uint64(pkt.QOS))
	err := x.feedSN(pkt)
	out := x.mq.take()

	ref, refOK := vRefTopic(pkt.TopicIDType, pkt.TopicID, re, ce, we)
	if !refOK {
		vReach("C01.denotes_nothing")
		vAssert(len(out) == 0, "C01.unknown_not_forwarded")
	} else if err == nil {
		vReach("C01.accepted")
		vAssert(len(out) == 1, "C01.exactly_one")
		if len(out) == 1 {
			m := vParseMQTT(out[0])
			vAssert(vAnd(m.OK, vAnd(m.Typ == vmPUBLISH, m.Size == len(out[0]))), "C01.is_publish")
			if m.OK && m.Typ == vmPUBLISH {
				wantQ := pkt.QOS
				if wantQ == 3 {
					wantQ = 0
				}
				vAssert(bytes.Equal(m.Payload, pkt.Data), "C01.payload")
				vAssert(vAnd(m.Retain == pkt.Retain, m.Dup == pkt.DUP()), "C01.flags")
				vAssert(m.Qos == wantQ, "C01.qos")
				if wantQ > 0 {
					vAssert(m.MsgID == pkt.MessageID(), "C01.msgid")
				}
				vAssert(string(m.Topic) == ref, "C01.topic")
			}
		}
	} else {
		vReach("C01.refused")
		if st == util.StateDisconnected {
			vAssert(len(out) == 0, "C01.refused_not_forwarded")
		}
	}
	vAssert(vRegistryIntact(x.h, re), "C01.registry_intact")
}
