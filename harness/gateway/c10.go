package gateway

import (
	"time"

	mqPkts "github.com/eclipse/paho.mqtt.golang/packets"

	snPkts1 "github.com/energomonitor/bisquitt/packets1"
)

// C10: half-open connect exchanges are reaped. The real run() with its real
// receive loops; the client performs a prefix of a connect exchange and falls
// silent; the broker stays silent too.
//
// prefix 0: CONNECT (no will)            -> MQTT CONNECT sent, broker silent
// prefix 1: CONNECT (will)               -> WILLTOPICREQ sent, client silent
// prefix 2: CONNECT (will), WILLTOPIC    -> WILLMSGREQ sent, client silent
// prefix 3: CONNECT (will), WILLTOPIC, WILLMSG -> MQTT CONNECT sent, broker silent
// prefix 4: auth on: CONNECT             -> waiting for AUTH
// prefix 5: auth on: CONNECT, AUTH       -> MQTT CONNECT sent, broker silent
// prefix 6: CONNECT, then a second CONNECT one second later (the old exchange is cancelled)
// prefix 7: CONNECT, then a second CONNECT with keep-alive 0 one second later (refused; the first exchange is still pending)
func VH_C10_halfopen(prefix int) {
	auth := prefix == 4 || prefix == 5
	s := vStartSession(auth, nil, nil, nil)
	will := prefix >= 1 && prefix <= 3
	con := snPkts1.NewConnect(vNondetU16("keepalive"), []byte("c"), will, vNondetBool("clean"))
	vAssume(con.Duration != 0)
	s.clientSends(con)
	tConnect := vNow()
	switch prefix {
	case 2, 3:
		wq := vNondetU8("wqos")
		vAssume(wq <= 3)
		s.clientSends(snPkts1.NewWillTopic("w", wq, vNondetBool("wretain")))
		if prefix == 3 {
			s.clientSends(snPkts1.NewWillMsg([]byte("m")))
		}
	case 5:
		s.clientSends(snPkts1.NewAuthPlain("u", []byte("p")))
	case 6:
		s.runFor(time.Second, 40)
		s.clientSends(con)
		tConnect = vNow()
	case 7:
		// a second CONNECT that is refused (keep-alive 0): the pending exchange stays supervised
		s.runFor(time.Second, 40)
		s.clientSends(snPkts1.NewConnect(0, []byte("c"), false, true))
	}
	// (a refused exchange, e.g. will QoS 3, may end the session at once)
	// silence
	s.runFor(6*time.Second, 400)
	vAssert(s.done, "C10.session_ends")
	vAssert(!s.panicked, "C10.no_panic")
	if s.done {
		vReach("C10.reaped")
		vAssert(vTimeLe(s.doneAt, tConnect+int64(connectTransactionTimeout)+int64(connTimeout)), "C10.ends_within_timeout_plus_poll")
		vAssert(s.mq.closed == 1, "C10.broker_connection_closed")
	}
}

// VH_C10_answered: the same prefixes, but the broker accepts in time: the
// session must NOT be reaped by the connect timeout (guards against a check
// that is satisfied by sessions that always die).
func VH_C10_answered(prefix int) {
	s := vStartSession(false, nil, nil, nil)
	con := snPkts1.NewConnect(60, []byte("c"), false, true)
	s.clientSends(con)
	ca := mqPkts.NewControlPacket(mqPkts.Connack).(*mqPkts.ConnackPacket)
	ca.ReturnCode = mqPkts.Accepted
	s.runFor(time.Duration(prefix)*time.Second, 100)
	s.brokerSends(ca)
	s.runFor(7*time.Second, 400)
	vAssert(!s.done, "C10.accepted_session_survives")
	vReach("C10.survives")
}
