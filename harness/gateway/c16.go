package gateway

import (
	"bytes"
	"time"

	mqPkts "github.com/eclipse/paho.mqtt.golang/packets"

	"github.com/energomonitor/bisquitt/client"
	snPkts1 "github.com/energomonitor/bisquitt/packets1"
	"github.com/energomonitor/bisquitt/util"
)

// C16: QoS 1/2 delivery to clients survives datagram loss. Real gateway handler
// (with its retry timers, virtual time) and real client joined by a lossy link;
// the fate of every datagram (deliver / drop / duplicate) is a symbolic choice.

type vLink struct {
	x       *vH
	cl      *client.Client
	conn    *vRecConn
	rc      int
	got     []string
	gotData [][]byte
	// what the broker saw
	mqSeen [][]byte
	// consecutive non-deliveries per direction
	dropG2C, dropC2G int
	lossy             bool
	firstPub          []byte
	retrans           int
	clientPubacks     int
	brokerPubacksEarly bool
	forced             []int
}

func vNewLink(rc int, topicKind int) (*vLink, string) {
	d := vNondetDelay("retry_delay")
	vAssume(vAnd(d > 0, d < int64(time.Hour)))
	cfg := &handlerConfig{RetryDelay: time.Duration(d), RetryCount: uint(rc)}
	l := &vLink{rc: rc, conn: &vRecConn{}}
	x := &vH{h: newHandler(cfg, nil, util.NoOpLogger{}), sn: &vRecConn{}, mq: &vRecConn{}}
	x.ctx, x.cancel = vBackground()
	vInitHandlerConns(x)
	x.h.clientID, x.h.keepAlive = "c", 10
	x.h.state.Set(util.StateActive)
	l.x = x
	ccfg := &client.ClientConfig{ClientID: "c", RetryDelay: time.Second, RetryCount: 1, ConnectTimeout: time.Second}
	l.cl = client.VNewClientOnConn(ccfg, l.conn)
	client.VSetActive(l.cl)
	client.VInstallHandler(l.cl, "#", func(c *client.Client, topic string, pkt *snPkts1.Publish) {
		l.got = append(l.got, topic)
		l.gotData = append(l.gotData, pkt.Data)
	})
	topic := "ab"
	switch topicKind {
	case 1: // already registered on both sides
		topic = "reg/topic"
		x.h.registeredTopics.Store(uint16(7), topic)
		x.h.topicID = util.VSeqState(1, 0xFFFE, 8, false)
		client.VSetRegistered(l.cl, topic, 7)
	case 2: // new: the gateway registers it first
		topic = "new/topic"
	}
	return l, topic
}

// fate: 0 deliver, 1 drop, 2 duplicate. Within the budget: at most rc failed
// attempts in a row per flow step, i.e. at most rc datagrams (in either
// direction) are lost since the gateway last received an answer.
func (l *vLink) fate(c2g bool) int {
	if !l.lossy {
		return 0
	}
	var f int
	if len(l.forced) > 0 {
		// the first fates are fixed per instance (splits one exploration over several workers)
		f = l.forced[0]
		l.forced = l.forced[1:]
	} else {
		f = vChoose(3)
	}
	if f == 1 {
		l.dropG2C++
		vAssume(l.dropG2C <= l.rc)
	} else if c2g {
		l.dropG2C = 0
	}
	return f
}

// pump moves datagrams until nothing is in flight; returns whether anything moved.
func (l *vLink) pump() bool {
	moved := false
	for iter := 0; iter < 12; iter++ {
		g2c := l.x.sn.take()
		c2g := l.conn.take()
		mq := l.x.mq.take()
		if len(g2c)+len(c2g)+len(mq) == 0 {
			break
		}
		moved = true
		for _, d := range g2c {
			r := vParseSN(d)
			if r.OK && r.Typ == vtPUBLISH {
				if l.firstPub == nil {
					l.firstPub = d
				} else {
					// a retransmission: same message ID and payload, DUP set
					f := vParseSN(l.firstPub)
					l.retrans++
					vAssert(vAnd(r.MsgID == f.MsgID, bytes.Equal(r.Str, f.Str)), "C16.retransmission_same_message")
					vAssert(r.Flags&0x80 != 0, "C16.retransmission_has_dup")
				}
			}
			switch l.fate(false) {
			case 0:
				l.toClient(d)
			case 2:
				l.toClient(d)
				l.toClient(d)
			}
		}
		for _, d := range c2g {
			r := vParseSN(d)
			if r.OK && r.Typ == vtPUBACK {
				l.clientPubacks++
			}
			switch l.fate(true) {
			case 0:
				l.toGateway(d)
			case 2:
				l.toGateway(d)
				l.toGateway(d)
			}
		}
		for _, b := range mq {
			l.mqSeen = append(l.mqSeen, b)
			m := vParseMQTT(b)
			if m.OK && m.Typ == vmPUBACK && l.clientPubacks == 0 {
				l.brokerPubacksEarly = true
			}
			if m.OK && m.Typ == vmPUBREC {
				// the broker releases the message
				rel := mqPkts.NewControlPacket(mqPkts.Pubrel).(*mqPkts.PubrelPacket)
				rel.MessageID = m.MsgID
				l.x.feedMQ(rel)
			}
		}
	}
	return moved
}

func (l *vLink) toClient(d []byte) {
	pkt, err := snPkts1.ReadPacket(&vBytesReader{d})
	if err == nil {
		client.VHandlePacket(l.cl, pkt)
		vRunUntilIdle()
	}
}

func (l *vLink) toGateway(d []byte) {
	pkt, err := snPkts1.ReadPacket(&vBytesReader{d})
	if err == nil {
		l.x.feedSN(pkt)
	}
}

// VH_C16_flow(qos, topicKind, rc, lossy): one broker message of the given QoS
// on a short (0) / registered (1) / new (2) topic.
func VH_C16_flow(qos, topicKind, rc, lossy, f1, f2 int) {
	l, topic := vNewLink(rc, topicKind)
	l.lossy = lossy == 1
	if f1 >= 0 {
		l.forced = append(l.forced, f1)
		if f2 >= 0 {
			l.forced = append(l.forced, f2)
		}
	}
	p := mqPkts.NewControlPacket(mqPkts.Publish).(*mqPkts.PublishPacket)
	p.Qos, p.TopicName = byte(qos), topic
	p.MessageID = vNondetU16("msgid")
	p.Payload = vNondetBytes("payload", 2)
	p.Retain = vNondetBool("retain")
	vAssume(l.x.feedMQ(p) == nil)
	for round := 0; round < 4*(rc+2); round++ {
		l.pump()
		if vPendingTimers() == 0 {
			break
		}
		if !vAdvance() {
			break
		}
	}
	l.pump()
	vReach("C16.flow_done")
	nAck := vCountMQ(l.mqSeen, vmPUBACK)
	if qos == 1 {
		vAssert(len(l.got) >= 1, "C16.qos1_delivered")
		vAssert(nAck >= 1, "C16.qos1_broker_gets_puback")
		vAssert(!l.brokerPubacksEarly, "C16.qos1_no_puback_before_client")
	} else {
		vAssert(vAnd(vCountMQ(l.mqSeen, vmPUBREC) >= 1, vCountMQ(l.mqSeen, vmPUBCOMP) >= 1), "C16.qos2_handshake_completes_at_broker")
		vAssert(len(l.got) == 1, "C16.qos2_handler_runs_exactly_once")
	}
	for i, g := range l.got {
		vAssert(vAnd(g == topic, bytes.Equal(l.gotData[i], p.Payload)), "C16.delivered_message_is_the_brokers")
	}
}

// VH_C16_overbudget(qos, rc): the client never answers: exactly rc
// retransmissions of the PUBLISH, then the gateway stops.
func VH_C16_overbudget(qos, rc int) {
	l, topic := vNewLink(rc, 0)
	p := mqPkts.NewControlPacket(mqPkts.Publish).(*mqPkts.PublishPacket)
	p.Qos, p.TopicName = byte(qos), topic
	p.MessageID = vNondetU16("msgid")
	p.Payload = vNondetBytes("payload", 1)
	vAssume(l.x.feedMQ(p) == nil)
	sent := 0
	for round := 0; round < rc+4; round++ {
		for _, d := range l.x.sn.take() {
			r := vParseSN(d)
			if r.OK && r.Typ == vtPUBLISH {
				sent++
				if sent > 1 {
					vAssert(vAnd(r.Flags&0x80 != 0, r.MsgID == p.MessageID), "C16.retransmission_has_dup")
				}
			}
		}
		if !vAdvance() {
			break
		}
	}
	vReach("C16.overbudget_done")
	vAssert(sent == rc+1, "C16.exactly_retrycount_retransmissions")
	_, still := l.x.h.transactions.Get(p.MessageID)
	vAssert(!still, "C16.transaction_gone_after_budget")
}
