package gateway

import (
	"context"
	"errors"
	"net"
	"time"

	mqPkts "github.com/eclipse/paho.mqtt.golang/packets"

	snPkts1 "github.com/energomonitor/bisquitt/packets1"
	"github.com/energomonitor/bisquitt/util"
)

// C13 / C14 / C34: how sessions end. The real run() (see session.go).

const (
	stDisconnected = 0
	stActive       = 1
	stAsleep       = 2
	stAwake        = 3
	stConnecting   = 4 // CONNECT forwarded, broker has not answered
)

// reach drives a real exchange that leaves the session in the given state.
func (s *vSession) reach(state int, keepAlive uint16, sleep uint16) {
	if state == stDisconnected {
		return
	}
	s.clientSends(snPkts1.NewConnect(keepAlive, []byte("c"), false, true))
	if state == stConnecting {
		return
	}
	ca := mqPkts.NewControlPacket(mqPkts.Connack).(*mqPkts.ConnackPacket)
	ca.ReturnCode = mqPkts.Accepted
	s.brokerSends(ca)
	if state == stActive {
		return
	}
	s.clientSends(snPkts1.NewDisconnect(sleep))
	if state == stAsleep {
		return
	}
	s.clientSends(snPkts1.NewPingreq([]byte("c")))
}

func vCountSN(out [][]byte, typ byte) int {
	n := 0
	for _, d := range out {
		if r := vParseSN(d); r.OK && r.Typ == typ {
			n++
		}
	}
	return n
}

func vCountMQ(out [][]byte, typ byte) int {
	n := 0
	for _, b := range out {
		if len(b) > 0 && b[0]>>4 == typ {
			n++
		}
	}
	return n
}

// VH_C13_terminate(state, cause, pending):
// cause 0: gateway shutdown (parent context cancelled)
// cause 1: the client's plain DISCONNECT
// cause 2: the broker closes the connection
// cause 3: a datagram that does not decode
// cause 4: an illegal packet (REGISTER before CONNECT; only in state disconnected)
// cause 5: bytes from the broker that do not decode
// pending 1: a broker PUBLISH QoS 1 is in flight (retry timer armed) when the cause occurs
func VH_C13_terminate(state, cause, pending int) {
	s := vStartSession(false, nil, nil, nil)
	ka, sl := vNondetU16("keepalive"), vNondetU16("sleep")
	vAssume(vAnd(vAnd(ka != 0, ka <= 3600), vAnd(sl != 0, sl <= 3600)))
	s.reach(state, ka, sl)
	want := []util.ClientState{util.StateDisconnected, util.StateActive, util.StateAsleep, util.StateAwake, util.StateDisconnected}[state]
	// (state 3 = woken up once: the wake-up PINGRESP returns the client to asleep)
	vAssume(vOr(s.h.state.Get() == want, vAnd(state == stAwake, s.h.state.Get() == util.StateAsleep)))
	vAssume(!s.done)
	if pending == 1 {
		p := mqPkts.NewControlPacket(mqPkts.Publish).(*mqPkts.PublishPacket)
		p.Qos, p.MessageID, p.TopicName, p.Payload = 1, vNondetU16("msgid"), "ab", vNondetBytes("payload", 1)
		s.brokerSends(p)
	}
	// the cause occurs after an arbitrary while (less than the keep-alive / sleep announced)
	w := vNondetDelay("wait")
	vAssume(vAnd(w >= 0, w < int64(time.Second)))
	vSleepUntil(vNow() + w)
	vAssume(!s.done)
	s.sn.take()
	s.mq.take()
	t0 := vNow()
	ownDisconnect := false
	stateBefore := s.h.state.Get()
	switch cause {
	case 0:
		s.cancel()
		vRunUntilIdle()
	case 1:
		ownDisconnect = true
		s.clientSends(snPkts1.NewDisconnect(0))
	case 2:
		close(s.mq.in)
		vRunUntilIdle()
	case 3:
		s.clientSendsRaw([]byte{0x05, 0x0c, 0x00}) // PUBLISH shorter than its fixed part
	case 4:
		vAssume(state == stDisconnected)
		r := snPkts1.NewRegister(0, "t")
		r.SetMessageID(1)
		s.clientSends(r)
	case 5:
		s.mq.in <- []byte{0xF0, 0x00} // reserved MQTT packet type
		vRunUntilIdle()
	}
	stateAtCause := s.h.state.Get()
	if !ownDisconnect {
		stateAtCause = stateBefore
	}
	// bounded time: one connection poll interval (plus the pending send, which is immediate here)
	s.runFor(2*time.Second, 200)
	vAssert(s.done, "C13.session_ends")
	vAssert(!s.panicked, "C13.no_panic")
	if !s.done {
		return
	}
	vReach("C13.ended")
	vAssert(vTimeLe(s.doneAt, t0+int64(connTimeout)), "C13.ends_within_poll_interval")
	vAssert(s.mq.closed == 1, "C13.broker_connection_closed_once")
	nDisc := vCountSN(s.sn.out, vtDISCONNECT)
	connected := stateAtCause == util.StateActive || stateAtCause == util.StateAwake
	if ownDisconnect {
		// the reply to the client's own DISCONNECT, nothing more
		vAssert(nDisc == 1, "C13.own_disconnect_answered_once")
	} else if connected {
		vAssert(nDisc == 1, "C13.connected_client_gets_disconnect")
	} else {
		vAssert(nDisc == 0, "C13.no_disconnect_for_sleeping_or_unconnected")
	}
	// C14: an MQTT DISCONNECT only for the client's own plain DISCONNECT
	nMq := vCountMQ(s.mq.out, vmDISCONNECT)
	if ownDisconnect {
		vAssert(nMq == 1, "C14.plain_disconnect_forwarded")
	} else {
		vReach("C14.other_termination")
		vAssert(nMq == 0, "C14.no_mqtt_disconnect_on_other_termination")
	}
	// no goroutine of the session outlives it (timers still pending may fire; they must not resurrect anything)
	for i := 0; i < 50 && vAdvance(); i++ {
	}
	vAssert(vLiveTasks() <= 0, "C13.no_goroutine_left")
}

var vErrDial = errors.New("dial refused (harness)")

// vDialFail replaces (*net.Dialer).DialContext in VH_C13_dialfail.
func vDialFail(d *net.Dialer, ctx context.Context, network, address string) (net.Conn, error) {
	return nil, vErrDial
}

// VH_C13_dialfail: the broker cannot be reached: the client gets CONNACK
// congestion, run() returns, and nothing of the session stays behind.
func VH_C13_dialfail() {
	cfg := &handlerConfig{RetryDelay: time.Second, RetryCount: 2, MqttBrokerAddress: &net.TCPAddr{}}
	h := newHandler(cfg, nil, util.NoOpLogger{})
	sn := vNewChanConn(false)
	ctx, cancel := context.WithCancel(context.Background())
	done := false
	vGo(func() {
		h.run(ctx, sn)
		done = true
	})
	vRunUntilIdle()
	vAssert(done, "C13.dialfail_run_returns")
	vAssert(vCountSN(sn.out, vtCONNACK) == 1, "C13.dialfail_connack")
	for i := 0; i < 20 && vAdvance(); i++ {
	}
	vLabel("dialfail", 1)
	vAssert(vLiveTasks() <= 0, "C13.no_goroutine_left")
	cancel()
}
