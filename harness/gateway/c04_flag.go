package gateway

import "sync/atomic"

// vExhaustedFlag reads the handler's "topic IDs exhausted" memory.
func vExhaustedFlag(h *handler1) bool { return atomic.LoadUint32(&h.topicIDsDepleted) != 0 }

func vSeqPeek(h *handler1) (uint16, bool) { return utilSeqPeek(h) }
