package gateway

import (
	mqPkts "github.com/eclipse/paho.mqtt.golang/packets"

	snPkts1 "github.com/energomonitor/bisquitt/packets1"
	"github.com/energomonitor/bisquitt/util"
)

// C06: exchanges started by each side never interfere (gateway side).
//
// kind1 (client-initiated, message ID m1): 0 = PUBLISH QoS 1, 1 = SUBSCRIBE, 2 = PUBLISH QoS 2
// kind2 (broker-initiated, message ID m2): 0 = PUBLISH QoS 1 (short topic),
//   1 = PUBLISH QoS 2 (short topic), 2 = PUBLISH QoS 1 on a new topic (REGISTER first)
// order: 0 = the client's exchange starts first, 1 = the broker's
func VH_C06_gw(kind1, kind2, order int) {
	x := vMkHandler(false, nil, nil, nil)
	h := x.h
	h.clientID, h.keepAlive = "c", 10
	h.state.Set(util.StateActive)
	m1, m2 := vNondetU16("m1"), vNondetU16("m2")
	if kind2 == 3 {
		// QoS 0 on a new topic: the gateway chooses the message ID of its REGISTER itself
		// (m2 is not used): whatever m1 is, it must choose one that is free
		vAssume(m1 != m2)
	}
	vLabel("same_id", vB2U(m1 == m2))
	vLabel("kind1", uint64(kind1))
	vLabel("kind2", uint64(kind2))
	vLabel("order", uint64(order))

	start1 := func() {
		switch kind1 {
		case 0:
			p := snPkts1.NewPublish(0x6162, []byte("x"), false, 1, false, snPkts1.TIT_SHORT)
			p.SetMessageID(m1)
			vAssume(x.feedSN(p) == nil)
		case 1:
			s := snPkts1.NewSubscribe("ab/c", 0, false, 1, 0)
			s.SetMessageID(m1)
			vAssume(x.feedSN(s) == nil)
		case 2:
			p := snPkts1.NewPublish(0x6162, []byte("x"), false, 2, false, snPkts1.TIT_SHORT)
			p.SetMessageID(m1)
			vAssume(x.feedSN(p) == nil)
		}
		x.mq.take()
	}
	start2 := func() {
		p := mqPkts.NewControlPacket(mqPkts.Publish).(*mqPkts.PublishPacket)
		p.MessageID, p.Payload = m2, []byte("y")
		switch kind2 {
		case 0:
			p.Qos, p.TopicName = 1, "xy"
		case 1:
			p.Qos, p.TopicName = 2, "xy"
		case 2:
			p.Qos, p.TopicName = 1, "new/topic"
		case 3:
			p.Qos, p.TopicName, p.MessageID = 0, "new/topic", 0
		}
		vAssume(x.feedMQ(p) == nil)
		for _, d := range x.sn.take() {
			if r := vParseSN(d); r.OK && r.Typ == vtREGISTER {
				vLastRegisterID = r.TopicID
				vLastRegisterMsgID = r.MsgID
			}
		}
	}
	if order == 0 {
		start1()
		start2()
	} else {
		start2()
		start1()
	}
	if kind2 == 3 {
		// the two exchanges collide when the client's ID equals the one the gateway chose
		// (possible only when the gateway chose first: the known shared-store defect)
		vLabel("same_id", vB2U(m1 == vLastRegisterMsgID))
	}
	// a collision the gateway could have avoided: it chose its ID when the client's exchange already existed
	vLabel("avoidable", vB2U(kind2 == 3 && order == 0))
	// the broker acknowledges the client's exchange
	switch kind1 {
	case 0:
		a := mqPkts.NewControlPacket(mqPkts.Puback).(*mqPkts.PubackPacket)
		a.MessageID = m1
		x.feedMQ(a)
	case 1:
		a := mqPkts.NewControlPacket(mqPkts.Suback).(*mqPkts.SubackPacket)
		a.MessageID = m1
		a.ReturnCodes = []byte{1}
		x.feedMQ(a)
	case 2:
		a := mqPkts.NewControlPacket(mqPkts.Pubrec).(*mqPkts.PubrecPacket)
		a.MessageID = m1
		x.feedMQ(a)
	}
	out := x.sn.take()
	want := []byte{vtPUBACK, vtSUBACK, vtPUBREC}[kind1]
	ok := false
	for _, d := range out {
		r := vParseSN(d)
		ok = vOr(ok, vAnd(r.OK, vAnd(r.Typ == want, r.MsgID == m1)))
	}
	vAssert(ok, "C06.gw_client_exchange_acknowledged")
	// the client acknowledges the broker's exchange
	switch kind2 {
	case 0:
		a := snPkts1.NewPuback(0x7879, snPkts1.RC_ACCEPTED)
		a.SetMessageID(m2)
		x.feedSN(a)
	case 1:
		a := snPkts1.NewPubrec()
		a.SetMessageID(m2)
		x.feedSN(a)
	case 2:
		// the REGISTER carried m2 and a fresh topic ID: the client accepts it
		id, found := h.findRegisteredTopicID("new/topic")
		_ = found
		a := snPkts1.NewRegack(vC06RegisterID(h, id), snPkts1.RC_ACCEPTED)
		a.SetMessageID(m2)
		x.feedSN(a)
	case 3:
		a := snPkts1.NewRegack(vLastRegisterID, snPkts1.RC_ACCEPTED)
		a.SetMessageID(vLastRegisterMsgID)
		x.feedSN(a)
	}
	mq := x.mq.take()
	sn := x.sn.take()
	ok2 := false
	switch kind2 {
	case 0:
		ok2 = vCountMQ(mq, vmPUBACK) == 1
	case 1:
		ok2 = vCountMQ(mq, vmPUBREC) == 1
	case 2, 3:
		ok2 = vCountSN(sn, vtPUBLISH) == 1
	}
	vReach("C06.gw_done")
	vAssert(ok2, "C06.gw_broker_exchange_continues")
}

// vC06RegisterID: the topic ID of the REGISTER the gateway sent (kept in the transaction).
func vC06RegisterID(h *handler1, fallback uint16) uint16 {
	return vLastRegisterID
}

var vLastRegisterID, vLastRegisterMsgID uint16
