package gateway

import (
	snPkts "github.com/energomonitor/bisquitt/packets"
	snPkts1 "github.com/energomonitor/bisquitt/packets1"
	"github.com/energomonitor/bisquitt/util"
)

// C04: topic IDs are unique per session and never reassigned (induction over the ID counter).

func vC04Handler(nc, nw int) (*vH, []vEntry, []vEntry) {
	cid := vNondetString("clientid", 1)
	vAssume(cid != "*")
	pre, ce, we := vPredef(cid, nc, nw, 1)
	x := vMkHandler(false, nil, nil, pre)
	x.h.clientID = cid
	x.h.state.Set(util.StateActive)
	return x, ce, we
}

// VH_C04_fresh_step(nc, nw): from Fresh(n) (counter at n, not wrapped, every ID
// handed out so far < n; n symbolic over the whole range) one allocation either
// fails or returns an ID >= n in 1..0xFFFE that is not predefined for the client
// and leaves Fresh(n') with n' > id, or the wrapped state.
func VH_C04_fresh_step(nc, nw int) {
	x, ce, we := vC04Handler(nc, nw)
	h := x.h
	n := vNondetU16("seq_next")
	vAssume(vAnd(n >= snPkts.MinTopicAlias, n <= snPkts.MaxTopicAlias))
	h.topicID = util.VSeqState(snPkts.MinTopicAlias, snPkts.MaxTopicAlias, n, false)
	id, err := h.newTopicID()
	next, wrapped := util.VSeqPeek(h.topicID)
	if err != nil {
		vReach("C04.fresh_refused")
		// refusal only when no usable ID >= n is left: the counter has wrapped
		vAssert(vC04Exhausted(h), "C04.refusal_means_exhausted")
		return
	}
	vReach("C04.fresh_allocated")
	vAssert(vAnd(id >= n, vAnd(id >= 1, id <= 0xFFFE)), "C04.id_in_range_and_new")
	_, isPre := vRefName(ce, we, id)
	vAssert(!isPre, "C04.id_not_predefined")
	// post-state: still fresh above id, or wrapped (every ID of the range consumed)
	vAssert(vOr(vAnd(!wrapped, next > id), vC04WrappedPending(h)), "C04.post_state")
}

// vC04WrappedPending: the counter has handed out its maximum: the next request must be refused.
func vC04WrappedPending(h *handler1) bool {
	next, wrapped := util.VSeqPeek(h.topicID)
	return vAnd(wrapped, next == snPkts.MinTopicAlias)
}

// vC04Exhausted: a state in which the session has no ID left (after wrap, before or after the first refusal).
func vC04Exhausted(h *handler1) bool {
	return vOr(vC04WrappedPending(h), vExhaustedFlag(h))
}

// VH_C04_exhausted(nc, nw, via): from the wrapped state (the computed post-state
// of handing out the maximum), every further request is refused, however many
// follow: the state after the second refusal equals the state after the first
// (fixed point), so all later requests behave like these.
func VH_C04_exhausted(nc, nw, via int) {
	x, _, _ := vC04Handler(nc, nw)
	h := x.h
	// reach the wrapped state through the real code: counter at max, not predefined
	h.topicID = util.VSeqState(snPkts.MinTopicAlias, snPkts.MaxTopicAlias, snPkts.MaxTopicAlias, false)
	_, pd := h.predefinedTopics.GetTopicName(h.clientID, snPkts.MaxTopicAlias)
	vAssume(!pd)
	id, err := h.newTopicID()
	vAssume(err == nil)
	vAssert(id == snPkts.MaxTopicAlias, "C04.last_id")
	// registrations made earlier in the session (IDs 1 and 2 stand for all of them)
	h.registeredTopics.Store(uint16(1), "a")
	h.registeredTopics.Store(uint16(2), "b")
	refused := func(k int) {
		switch via {
		case 0:
			_, err := h.newTopicID()
			vAssert(err != nil, "C04.exhausted_refuses")
		case 1:
			_, err := h.registerTopic("new-topic")
			vAssert(err != nil, "C04.exhausted_refuses")
		case 2:
			reg := snPkts1.NewRegister(0, "new-topic")
			reg.SetMessageID(7)
			x.feedSN(reg)
			out := x.sn.take()
			vAssert(len(out) == 1, "C04.exhausted_register_answered")
			if len(out) == 1 {
				r := vParseSN(out[0])
				vAssert(vAnd(r.OK, vAnd(r.Typ == vtREGACK, r.RC != 0)), "C04.exhausted_refuses")
			}
		case 3:
			sub := snPkts1.NewSubscribe("new-topic", 0, false, 0, 0)
			sub.SetMessageID(7)
			x.feedSN(sub)
			out := x.sn.take()
			vAssert(vAnd(len(out) == 1, len(x.mq.take()) == 0), "C04.exhausted_subscribe_answered")
			if len(out) == 1 {
				r := vParseSN(out[0])
				vAssert(vAnd(r.OK, vAnd(r.Typ == vtSUBACK, r.RC != 0)), "C04.exhausted_refuses")
			}
		}
		// earlier registrations keep their names
		a, _ := h.registeredTopics.Load(uint16(1))
		b, _ := h.registeredTopics.Load(uint16(2))
		vAssert(vAnd(a.(string) == "a", b.(string) == "b"), "C04.no_reassignment")
	}
	refused(1)
	n1, w1 := util.VSeqPeek(h.topicID)
	f1 := vExhaustedFlag(h)
	refused(2)
	n2, w2 := util.VSeqPeek(h.topicID)
	f2 := vExhaustedFlag(h)
	refused(3)
	n3, w3 := util.VSeqPeek(h.topicID)
	f3 := vExhaustedFlag(h)
	_, _, _ = n1, w1, f1
	vAssert(vAnd(n2 == n3, vAnd(w2 == w3, f2 == f3)), "C04.exhausted_fixed_point")
}

// VH_C04_init: a new session starts in Fresh(min).
func VH_C04_init() {
	x, _, _ := vC04Handler(0, 0)
	n, w := util.VSeqPeek(x.h.topicID)
	vAssert(vAnd(n == snPkts.MinTopicAlias, !w), "C04.init_fresh")
}
