package gateway

// Exported harness hooks (overlay only).

func VGatewayCfg(g *Gateway) *GatewayConfig { return g.cfg }
