package gateway

import (
	"context"
	"net"
	"time"

	mqPkts "github.com/eclipse/paho.mqtt.golang/packets"
	"golang.org/x/sync/errgroup"

	snPkts "github.com/energomonitor/bisquitt/packets"
	snPkts1 "github.com/energomonitor/bisquitt/packets1"
	"github.com/energomonitor/bisquitt/topics"
	"github.com/energomonitor/bisquitt/util"
)

// ---------------------------------------------------------------------------
// recording net.Conn

type vTimeoutErr struct{}

func (vTimeoutErr) Error() string   { return "timeout" }
func (vTimeoutErr) Timeout() bool   { return true }
func (vTimeoutErr) Temporary() bool { return true }

type vRecConn struct {
	out    [][]byte
	closed int
}

func (c *vRecConn) Read(p []byte) (int, error) { return 0, vTimeoutErr{} }
func (c *vRecConn) Write(p []byte) (int, error) {
	b := make([]byte, len(p))
	copy(b, p)
	c.out = append(c.out, b)
	return len(p), nil
}
func (c *vRecConn) Close() error                       { c.closed++; return nil }
func (c *vRecConn) LocalAddr() net.Addr                { return nil }
func (c *vRecConn) RemoteAddr() net.Addr               { return nil }
func (c *vRecConn) SetDeadline(t time.Time) error      { return nil }
func (c *vRecConn) SetReadDeadline(t time.Time) error  { return nil }
func (c *vRecConn) SetWriteDeadline(t time.Time) error { return nil }

func (c *vRecConn) take() [][]byte {
	o := c.out
	c.out = nil
	return o
}

type vBytesReader struct{ b []byte }

func (r *vBytesReader) Read(p []byte) (int, error) { return copy(p, r.b), nil }

// ---------------------------------------------------------------------------
// handler under test

type vH struct {
	h      *handler1
	sn, mq *vRecConn
	ctx    context.Context
	cancel context.CancelFunc
}

// vMkHandler builds a handler the way ListenAndServe+run do, with recording
// connections, so that handleMqttSn / handleMqtt run unmodified down to the bytes.
func vMkHandler(auth bool, user *string, pass []byte, pre topics.PredefinedTopics) *vH {
	cfg := &handlerConfig{AuthEnabled: auth, RetryDelay: time.Second, RetryCount: 2, MqttUser: user, MqttPassword: pass}
	h := newHandler(cfg, pre, util.NoOpLogger{})
	x := &vH{h: h, sn: &vRecConn{}, mq: &vRecConn{}}
	x.ctx, x.cancel = context.WithCancel(context.Background())
	var gctx context.Context
	h.group, gctx = errgroup.WithContext(x.ctx)
	h.snConn = util.NewConnWithContext(context.Background(), x.sn, connTimeout)
	h.mqttConn = util.NewConnWithContext(gctx, x.mq, connTimeout)
	return x
}

// vSNPacket decodes, with the real decoder, a datagram of the given type whose
// body of bodyLen bytes is entirely symbolic; only decodable packets pass.
func vSNPacket(typ byte, bodyLen int) snPkts.Packet {
	body := vNondetBytes("sn_body", bodyLen)
	return vSNDecode(typ, body)
}

func vSNDecode(typ byte, body []byte) snPkts.Packet {
	n := len(body) + 2
	var raw []byte
	if n <= 255 {
		raw = append([]byte{byte(n), typ}, body...)
	} else {
		n += 2
		raw = append([]byte{1, byte(n >> 8), byte(n), typ}, body...)
	}
	pkt, err := snPkts1.ReadPacket(&vBytesReader{raw})
	vAssume(err == nil)
	return pkt
}

func (x *vH) feedSN(pkt snPkts.Packet) error { return x.h.handleMqttSn(x.ctx, pkt) }
func (x *vH) feedMQ(pkt mqPkts.ControlPacket) error { return x.h.handleMqtt(x.ctx, pkt) }

// vState picks one of the four client states nondeterministically.
func vState() util.ClientState {
	switch vChoose(4) {
	case 0:
		return util.StateDisconnected
	case 1:
		return util.StateActive
	case 2:
		return util.StateAsleep
	}
	return util.StateAwake
}

// ---------------------------------------------------------------------------
// predefined topics and registry with symbolic content

type vEntry struct {
	id   uint16
	name string
}

func vRefLookup(es []vEntry, id uint16) (string, bool) {
	name, found := "", false
	for _, e := range es {
		if e.id == id {
			name, found = e.name, true
		}
	}
	return name, found
}

// vPredef: nc entries for client cid and nw "*" entries, IDs symbolic, names
// symbolic of the given length.
func vPredef(cid string, nc, nw, nameLen int) (topics.PredefinedTopics, []vEntry, []vEntry) {
	p := topics.PredefinedTopics{}
	var ce, we []vEntry
	for i := 0; i < nc; i++ {
		e := vEntry{vNondetU16("pre_cid_id"), vNondetString("pre_cid_name", nameLen)}
		p.Add(cid, e.name, e.id)
		ce = append(ce, e)
	}
	for i := 0; i < nw; i++ {
		e := vEntry{vNondetU16("pre_all_id"), vNondetString("pre_all_name", nameLen)}
		p.Add("*", e.name, e.id)
		we = append(we, e)
	}
	return p, ce, we
}

// vRegistry stores nr registered topics with symbolic IDs (pairwise distinct,
// in the legal range) and symbolic names into the handler.
func vRegistry(h *handler1, nr, nameLen int) []vEntry {
	var re []vEntry
	// the ID counter is in a state consistent with the registrations made so far:
	// Fresh(n) = (next = n, not wrapped), every registered ID < n
	n := vNondetU16("seq_next")
	vAssume(vAnd(n >= snPkts.MinTopicAlias, n <= snPkts.MaxTopicAlias))
	h.topicID = util.VSeqState(snPkts.MinTopicAlias, snPkts.MaxTopicAlias, n, false)
	for i := 0; i < nr; i++ {
		e := vEntry{vNondetU16("reg_id"), vNondetString("reg_name", nameLen)}
		vAssume(vAnd(e.id >= snPkts.MinTopicAlias, e.id < n))
		for _, o := range re {
			vAssume(o.id != e.id)
		}
		h.registeredTopics.Store(e.id, e.name)
		re = append(re, e)
	}
	return re
}

// vRegistryIntact: every pre-state registration is still there with its name.
func vRegistryIntact(h *handler1, re []vEntry) bool {
	ok := true
	for _, e := range re {
		v, found := h.registeredTopics.Load(e.id)
		if !found {
			return false
		}
		ok = vAnd(ok, v.(string) == e.name)
	}
	return ok
}

func vB2U(b bool) uint64 {
	if b {
		return 1
	}
	return 0
}

func utilSeqPeek(h *handler1) (uint16, bool) { return util.VSeqPeek(h.topicID) }

func vBackground() (context.Context, context.CancelFunc) {
	return context.WithCancel(context.Background())
}

// vInitHandlerConns wires recording connections and an errgroup into a handler.
func vInitHandlerConns(x *vH) {
	var gctx context.Context
	x.h.group, gctx = errgroup.WithContext(x.ctx)
	x.h.snConn = util.NewConnWithContext(context.Background(), x.sn, connTimeout)
	x.h.mqttConn = util.NewConnWithContext(gctx, x.mq, connTimeout)
}
