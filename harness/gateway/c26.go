package gateway

import (
	"bytes"
	"time"

	mqPkts "github.com/eclipse/paho.mqtt.golang/packets"

	"github.com/energomonitor/bisquitt/client"
	snPkts1 "github.com/energomonitor/bisquitt/packets1"
	"github.com/energomonitor/bisquitt/topics"
	"github.com/energomonitor/bisquitt/util"
)

// C26: the real client library, the real gateway session (run() with its
// receive loops) and a model MQTT broker, joined by a lossless link, in virtual
// time. A sleeping client has its radio off: what the gateway sends it while the
// client itself is in state asleep is lost.

type vSub struct {
	filter string
	qos    byte
}

type vPub struct {
	topic   string
	payload []byte
	qos     byte
	retain  bool
	dup     bool
}

type vGot struct {
	tag, topic string
	payload    []byte
}

type vBroker2 struct {
	s            *vSession
	connects     int
	disconnected bool
	protoErr     string
	subs         []vSub
	pubs         []vPub
	acked        []uint16
	pings        int
	nextID       uint16
}

func (b *vBroker2) reply(p mqPkts.ControlPacket) {
	var buf bytes.Buffer
	p.Write(&buf)
	b.s.mq.in <- buf.Bytes()
}

func (b *vBroker2) onWrite(p []byte, at int64) {
	r := vParseMQTT(p)
	if !r.OK {
		b.protoErr = "malformed packet"
		return
	}
	if r.Typ != vmCONNECT && b.connects == 0 {
		b.protoErr = "packet before CONNECT"
		return
	}
	switch r.Typ {
	case vmCONNECT:
		b.connects++
		if b.connects > 1 {
			b.protoErr = "second CONNECT on one connection"
			return
		}
		ca := mqPkts.NewControlPacket(mqPkts.Connack).(*mqPkts.ConnackPacket)
		ca.ReturnCode = mqPkts.Accepted
		b.reply(ca)
	case vmPUBLISH:
		b.pubs = append(b.pubs, vPub{string(r.Topic), r.Payload, r.Qos, r.Retain, r.Dup})
		switch r.Qos {
		case 1:
			a := mqPkts.NewControlPacket(mqPkts.Puback).(*mqPkts.PubackPacket)
			a.MessageID = r.MsgID
			b.reply(a)
		case 2:
			a := mqPkts.NewControlPacket(mqPkts.Pubrec).(*mqPkts.PubrecPacket)
			a.MessageID = r.MsgID
			b.reply(a)
		}
	case vmPUBREL:
		a := mqPkts.NewControlPacket(mqPkts.Pubcomp).(*mqPkts.PubcompPacket)
		a.MessageID = r.MsgID
		b.reply(a)
	case vmPUBACK, vmPUBCOMP:
		b.acked = append(b.acked, r.MsgID)
	case vmPUBREC:
		a := mqPkts.NewControlPacket(mqPkts.Pubrel).(*mqPkts.PubrelPacket)
		a.MessageID = r.MsgID
		b.reply(a)
	case vmSUBSCRIBE:
		a := mqPkts.NewControlPacket(mqPkts.Suback).(*mqPkts.SubackPacket)
		a.MessageID = r.MsgID
		for i, f := range r.Filters {
			b.subs = append(b.subs, vSub{string(f), r.Qoss[i]})
			a.ReturnCodes = append(a.ReturnCodes, r.Qoss[i])
		}
		b.reply(a)
	case vmUNSUBSCRIBE:
		for _, f := range r.Filters {
			var keep []vSub
			for _, s := range b.subs {
				if s.filter != string(f) {
					keep = append(keep, s)
				}
			}
			b.subs = keep
		}
		a := mqPkts.NewControlPacket(mqPkts.Unsuback).(*mqPkts.UnsubackPacket)
		a.MessageID = r.MsgID
		b.reply(a)
	case vmPINGREQ:
		b.pings++
		b.reply(mqPkts.NewControlPacket(mqPkts.Pingresp))
	case vmDISCONNECT:
		b.disconnected = true
	}
}

func (b *vBroker2) hasSub(filter string) bool {
	for _, s := range b.subs {
		if s.filter == filter {
			return true
		}
	}
	return false
}

// publish: the broker delivers a message (the harness picks topics that match a subscription).
func (b *vBroker2) publish(topic string, payload []byte, qos byte) uint16 {
	p := mqPkts.NewControlPacket(mqPkts.Publish).(*mqPkts.PublishPacket)
	p.TopicName, p.Payload, p.Qos = topic, payload, qos
	if qos > 0 {
		b.nextID++
		p.MessageID = 100 + b.nextID
	}
	b.reply(p)
	return p.MessageID
}

type vSys struct {
	s          *vSession
	cl         *client.Client
	cc         *vChanConn
	b          *vBroker2
	got        []vGot
	lostAsleep int
	connected  bool
	single     bool // the sequence consists of one operation
}

const vC26Client = "c"

var vC26Trace = false

func vC26Predefined() topics.PredefinedTopics {
	return topics.PredefinedTopics{vC26Client: {7: "pre/x"}}
}

func vNewSys(keepAlive int) *vSys {
	y := &vSys{}
	y.s = vStartSessionOpt(false, nil, nil, vC26Predefined(), false)
	y.s.sn.lazy, y.s.mq.lazy = true, true
	y.b = &vBroker2{s: y.s}
	y.s.mq.onWrite = y.b.onWrite
	y.cc = vNewChanConn(false)
	y.cc.lazy = true
	cfg := &client.ClientConfig{ClientID: vC26Client, KeepAlive: time.Duration(keepAlive) * time.Second, RetryDelay: time.Second, RetryCount: 2,
		ConnectTimeout: 5 * time.Second, CleanSession: true, PredefinedTopics: vC26Predefined()}
	y.cl = client.VDialOnConn(cfg, y.cc)
	// the link
	y.cc.onWrite = func(b []byte, at int64) {
		if vC26Trace {
			vObserveBytes("c2g", b)
		}
		y.s.sn.in <- b
	}
	y.s.sn.onWrite = func(b []byte, at int64) {
		if vC26Trace {
			vObserveBytes("g2c", b)
		}
		if client.VState(y.cl) == util.StateAsleep {
			y.lostAsleep++
			return
		}
		y.cc.in <- b
	}
	vRunUntilIdle()
	return y
}

func (y *vSys) poll() {
	for _, c := range []*vChanConn{y.s.sn, y.s.mq, y.cc} {
		select {
		case c.kick <- struct{}{}:
		default:
		}
	}
	vRunUntilIdle()
}

// call runs a blocking API call; lets virtual time pass while it blocks.
func (y *vSys) call(f func() error) {
	done := false
	var err error
	vGo(func() {
		err = f()
		done = true
	})
	vRunUntilIdle()
	for i := 0; i < 60 && !done; i++ {
		if !vAdvance() {
			break
		}
		y.poll()
	}
	vAssert(done, "C26.call_returns")
	vAssert(vImplies(done, err == nil), "C26.call_succeeds")
	vAssert(y.b.protoErr == "", "C26.broker_sees_conforming_stream")
}

func (y *vSys) handler(tag string) client.MessageHandlerFunc {
	return func(c *client.Client, topic string, pkt *snPkts1.Publish) {
		y.got = append(y.got, vGot{tag, topic, append([]byte{}, pkt.Data...)})
	}
}

// deliver: the broker publishes on topic; exactly this message must reach the handler.
func (y *vSys) deliver(topic string, qos byte) {
	n := len(y.got)
	payload := vNondetBytes("msg", 1)
	y.b.publish(topic, payload, qos)
	vRunUntilIdle()
	y.expect(n, topic, payload, qos)
}

func (y *vSys) expect(n int, topic string, payload []byte, qos byte) {
	// QoS 1 is at-least-once: repeated deliveries of the same message are allowed
	ok := len(y.got) == n+1
	if qos == 1 {
		ok = len(y.got) >= n+1
	}
	for i := n; ok && i < len(y.got); i++ {
		ok = vAnd(y.got[i].topic == topic, bytes.Equal(y.got[i].payload, payload))
	}
	vAssert(ok, "C26.message_reaches_handler")
}

func vC26Qos(label string) uint8 {
	q := vNondetU8(label)
	vAssume(q <= 2)
	return q
}

// op: one API call with its documented effect at the broker.
func (y *vSys) op(kind int) {
	cl, b := y.cl, y.b
	// after a sleep cycle the client is awake: it may sleep again, return to
	// active with Connect, or disconnect; everything else needs Connect first
	if client.VState(cl) != util.StateActive && kind != 11 && kind != 12 {
		return
	}
	switch kind {
	case 1: // Register a new topic, then publish on it
		y.call(func() error { return cl.Register("t/1") })
	case 2: // Subscribe to an exact topic; a message on it arrives
		q := vC26Qos("sub_qos")
		y.call(func() error { return cl.Subscribe("t/1", q, y.handler("exact")) })
		vAssert(b.hasSub("t/1"), "C26.subscribe_effect")
		y.deliver("t/1", vC26Qos("msg_qos"))
	case 3: // Subscribe to a wildcard; a burst of two messages on a not yet registered topic arrives
		q := vC26Qos("sub_qos")
		y.call(func() error { return cl.Subscribe("w/#", q, y.handler("wild")) })
		vAssert(b.hasSub("w/#"), "C26.subscribe_effect")
		n := len(y.got)
		p1, p2 := vNondetBytes("msg1", 1), vNondetBytes("msg2", 1)
		mq := vC26Qos("msg_qos")
		b.publish("w/new", p1, mq)
		b.publish("w/new", p2, mq)
		vRunUntilIdle()
		ok := len(y.got) == n+2
		if ok {
			ok = vAnd(vAnd(y.got[n].topic == "w/new", bytes.Equal(y.got[n].payload, p1)), vAnd(y.got[n+1].topic == "w/new", bytes.Equal(y.got[n+1].payload, p2)))
		}
		vAssert(ok, "C26.burst_reaches_handler")
		// the multi-level wildcard also matches its parent level (MQTT 3.1.1, 4.7.1.2);
		// checked in the single-operation sequence only (it multiplies the paths of longer ones)
		if y.single {
			y.deliver("w", 0)
		}
	case 4: // Subscribe to a short topic
		q := vC26Qos("sub_qos")
		y.call(func() error { return cl.Subscribe("ab", q, y.handler("short")) })
		vAssert(b.hasSub("ab"), "C26.subscribe_effect")
		y.deliver("ab", vC26Qos("msg_qos"))
	case 5: // Subscribe to a predefined topic
		q := vC26Qos("sub_qos")
		y.call(func() error { return cl.SubscribePredefined(7, q, y.handler("pre")) })
		vAssert(b.hasSub("pre/x"), "C26.subscribe_effect")
		y.deliver("pre/x", vC26Qos("msg_qos"))
	case 6, 7, 8: // Publish on a new / short / predefined topic
		q, retain, payload := vC26Qos("pub_qos"), vNondetBool("pub_retain"), vNondetBytes("pub_payload", 1)
		n := len(b.pubs)
		topic := []string{"n/1", "ab", "pre/x"}[kind-6]
		if kind == 6 {
			y.call(func() error { return cl.Register(topic) })
			n = len(b.pubs)
		}
		if kind == 8 {
			y.call(func() error { return cl.PublishPredefined(7, payload, q, retain) })
		} else {
			y.call(func() error { return cl.Publish(topic, payload, q, retain) })
		}
		ok := len(b.pubs) == n+1
		if ok {
			pb := b.pubs[n]
			ok = vAnd(vAnd(pb.topic == topic, bytes.Equal(pb.payload, payload)), vAnd(pb.qos == q, pb.retain == retain))
		}
		vAssert(ok, "C26.publish_effect")
	case 9: // Unsubscribe whatever was subscribed first
		if len(b.subs) == 0 {
			return
		}
		f := b.subs[0].filter
		if f == "pre/x" {
			y.call(func() error { return cl.UnsubscribePredefined(7) })
		} else {
			y.call(func() error { return cl.Unsubscribe(f) })
		}
		vAssert(!b.hasSub(f), "C26.unsubscribe_effect")
	case 10: // Ping
		n := b.pings
		y.call(func() error { return cl.Ping() })
		vAssert(b.pings == n+1, "C26.ping_effect")
	case 11: // a sleep cycle; a message for the first subscription arrives meanwhile and is handed over on wake-up
		d := vNondetU8("sleep_s")
		vAssume(vAnd(d >= 1, d <= 3))
		n := len(y.got)
		var topic string
		var payload []byte
		var mqos byte
		done := false
		var err error
		vGo(func() {
			err = cl.Sleep(time.Duration(d) * time.Second)
			done = true
		})
		vRunUntilIdle()
		if len(b.subs) > 0 {
			topic = map[string]string{"t/1": "t/1", "w/#": "w/s", "ab": "ab", "pre/x": "pre/x"}[b.subs[0].filter]
			payload = vNondetBytes("msg_asleep", 1)
			mqos = vC26Qos("msg_qos")
			b.publish(topic, payload, mqos)
			vRunUntilIdle()
		}
		for i := 0; i < 60 && !done; i++ {
			if !vAdvance() {
				break
			}
			y.poll()
		}
		vAssert(done, "C26.call_returns")
		vAssert(vImplies(done, err == nil), "C26.call_succeeds")
		vAssert(b.protoErr == "", "C26.broker_sees_conforming_stream")
		vAssert(y.lostAsleep == 0, "C26.nothing_sent_to_sleeping_client")
		if topic != "" {
			// QoS 2 / a topic that must be registered first: the gateway's next
			// packet (PUBLISH after the client's REGACK, PUBREL after its PUBREC)
			// is produced after the wake-up PINGRESP, when the client counts as
			// asleep again: each such step takes one more wake-up
			steps := 0
			if mqos == 2 {
				steps++
			}
			if topic == "w/s" {
				steps++
			}
			vLabel("asleep_qos", uint64(mqos))
			for i := 0; i < steps && len(y.got) == n; i++ {
				y.call(func() error { return cl.Sleep(time.Duration(d) * time.Second) })
				vReach("C26.released_at_later_wakeup")
			}
			y.expect(n, topic, payload, mqos)
		}
		vReach("C26.slept")
	case 13: // a name subscribed and unsubscribed again under a still active wildcard: messages on it keep arriving
		if !b.hasSub("v/#") {
			y.call(func() error { return cl.Subscribe("v/#", 0, y.handler("wild2")) })
		}
		y.call(func() error { return cl.Subscribe("v/x", 0, y.handler("exact2")) })
		y.call(func() error { return cl.Unsubscribe("v/x") })
		vAssert(vAnd(!b.hasSub("v/x"), b.hasSub("v/#")), "C26.unsubscribe_effect")
		y.deliver("v/x", vC26Qos("msg_qos"))
	case 12: // Connect again after a sleep cycle: back to active
		if client.VState(cl) == util.StateActive {
			return
		}
		y.call(func() error { return cl.Connect() })
		vAssert(client.VState(cl) == util.StateActive, "C26.connect_effect")
	}
}

// VH_C26_seq(k, o1, o2, o3): Connect, up to three operations (0 = none), Disconnect.
func VH_C26_seq(k, o1, o2, o3 int) {
	y := vNewSys(k)
	y.single = o2 == 0 && o3 == 0
	y.call(func() error { return y.cl.Connect() })
	vAssert(vAnd(y.b.connects == 1, client.VState(y.cl) == util.StateActive), "C26.connect_effect")
	for _, o := range []int{o1, o2, o3} {
		if o != 0 {
			y.op(o)
			vAssert(!y.s.done, "C26.session_survives")
		}
	}
	vReach("C26.ops_done")
	y.call(func() error { return y.cl.Disconnect() })
	vAssert(y.b.disconnected, "C26.disconnect_effect")
	vAssert(y.lostAsleep == 0, "C26.nothing_sent_to_sleeping_client")
}

// VH_C26_wake_by_connect: a sleeping client returns to the active state with
// CONNECT (MQTT-SN 1.2, 6.14) without having woken up in between. Raw
// datagrams (the client library has no call for this while Sleep blocks); the
// real gateway session and the model broker.
func VH_C26_wake_by_connect(k int) {
	s := vStartSessionOpt(false, nil, nil, nil, false)
	s.sn.lazy, s.mq.lazy = true, true
	b := &vBroker2{s: s}
	s.mq.onWrite = b.onWrite
	s.clientSends(snPkts1.NewConnect(uint16(k), []byte("c"), false, true))
	sub := snPkts1.NewSubscribe("", uint16(0x6162), false, 0, snPkts1.TIT_SHORT)
	sub.SetMessageID(1)
	s.clientSends(sub)
	vAssume(vAnd(b.hasSub("ab"), !s.done))
	d := vNondetU16("sleep_dur")
	vAssume(d != 0)
	s.clientSends(snPkts1.NewDisconnect(d))
	s.sn.take()
	payload := vNondetBytes("msg", 1)
	b.publish("ab", payload, 0)
	vRunUntilIdle()
	vAssert(len(s.sn.out) == 0, "C26.nothing_sent_to_sleeping_client")
	s.clientSends(snPkts1.NewConnect(uint16(k), []byte("c"), false, true))
	vReach("C26.woke_by_connect")
	vAssert(b.protoErr == "", "C26.broker_sees_conforming_stream")
	vAssert(!s.done, "C26.session_survives")
	out := s.sn.take()
	acc, msgs := 0, 0
	for _, dg := range out {
		r := vParseSN(dg)
		if r.OK && r.Typ == vtCONNACK && r.RC == 0 {
			acc++
		}
		if r.OK && r.Typ == vtPUBLISH && bytes.Equal(r.Str, payload) {
			msgs++
		}
	}
	vAssert(acc == 1, "C26.connect_effect")
	vAssert(msgs == 1, "C26.message_reaches_handler")
	// and the client is active again: its PUBLISH reaches the broker
	n := len(b.pubs)
	s.clientSends(snPkts1.NewPublish(uint16('a')<<8|uint16('b'), []byte("x"), false, 0, false, snPkts1.TIT_SHORT))
	vAssert(len(b.pubs) == n+1, "C26.publish_effect")
}
