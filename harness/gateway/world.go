package gateway

import (
	mqPkts "github.com/eclipse/paho.mqtt.golang/packets"

	snPkts "github.com/energomonitor/bisquitt/packets"
	snPkts1 "github.com/energomonitor/bisquitt/packets1"
	"github.com/energomonitor/bisquitt/util"
)

// The gateway "world": one real handler with recording connections, a symbolic
// configuration, a symbolic pre-state, and a catalogue of events (client
// datagrams, broker packets, timer expiry) with symbolic fields. Every step is
// followed by the oracles of several properties over what the step wrote.

const (
	evSN    = 0     // + MQTT-SN packet type; arg = body length
	evMQ    = 0x100 // + MQTT packet type; arg = variant
	evTIMER = 0x200
)

type vWorld struct {
	x     *vH
	auth  bool
	creds bool // gateway has configured broker credentials
	cid   string
	ce    []vEntry
	we    []vEntry
	// ghost for C07: 0 = no MQTT CONNECT sent, 1 = sent, 2 = accepted by the broker
	ghost int
	// per step
	inKind   int
	inSN     snPkts.Packet
	inMQ     mqPkts.ControlPacket
	err      error
	panicked bool
	snOut    [][]byte
	mqOut    [][]byte
	preState util.ClientState
	preReg   []vEntry
	told     []vEntry // ghost: topic IDs (and names) the client has been told
	steps    int
	conform  bool // broker model obeys MQTT (nothing but CONNACK before accepting; CONNACK only as an answer)
}

// vNewWorld: fresh session as ListenAndServe creates it. Configuration:
// auth on/off, gateway credentials present/absent, predefined topics for one
// client ("c", one symbolic byte) and "*".
func vNewWorld(nc, nw, nameLen int) *vWorld {
	w := &vWorld{}
	w.auth = vNondetBool("auth")
	w.creds = vNondetBool("gw_creds")
	var user *string
	var pass []byte
	if w.creds {
		u := vNondetString("gw_user", 1)
		user = &u
		pass = vNondetBytes("gw_pass", 1)
	}
	w.cid = vNondetString("pre_clientid", 1)
	vAssume(w.cid != "*")
	pre, ce, we := vPredef(w.cid, nc, nw, nameLen)
	w.ce, w.we = ce, we
	// configured predefined names are valid topic names (operator configuration)
	for _, e := range append(append([]vEntry{}, ce...), we...) {
		vAssume(vAnd(len(e.name) > 0, !vHasWild([]byte(e.name))))
	}
	w.x = vMkHandler(w.auth, user, pass, pre)
	return w
}

// vJump puts the session into an arbitrary state reachable by a history that
// respects the C07 invariant: connected states come with an accepted CONNECT.
func (w *vWorld) vJump(nr, nameLen int) []vEntry {
	// the state is a symbolic value (no fork until the code inspects it)
	st := util.ClientState(vNondetU32("state"))
	vAssume(st <= util.StateAwake)
	w.x.h.state.Set(st)
	connected := st != util.StateDisconnected
	w.ghost = vIte(connected, 2, 0)
	// client ID and keep-alive are set by the CONNECT of the history that led here
	// (a disconnected session may also have seen a CONNECT, e.g. one the broker refused)
	w.x.h.clientID = vNondetString("clientid", 1)
	w.x.h.keepAlive = vNondetU16("keepalive")
	vAssume(vImplies(connected, w.x.h.keepAlive != 0))
	re := vRegistry(w.x.h, nr, nameLen)
	for _, e := range re {
		vAssume(vAnd(len(e.name) > 0, !vHasWild([]byte(e.name))))
		// registered IDs never collide with predefined IDs visible to the client (C04 invariant)
		_, pd := w.x.h.predefinedTopics.GetTopicName(w.x.h.clientID, e.id)
		vAssume(!pd)
	}
	// in an arbitrary pre-state every registration may have been told to the client
	w.told = append(w.told, re...)
	return re
}

// vMQEvent builds a broker packet of the given MQTT type with symbolic fields.
func vMQEvent(typ int, arg int) mqPkts.ControlPacket {
	p := mqPkts.NewControlPacket(byte(typ))
	fh := mqPkts.FixedHeader{MessageType: byte(typ), Dup: vNondetBool("mq_dup"), Qos: vNondetU8("mq_qos"), Retain: vNondetBool("mq_retain")}
	vAssume(fh.Qos <= 3)
	switch q := p.(type) {
	case *mqPkts.ConnackPacket:
		q.FixedHeader = fh
		q.SessionPresent = vNondetBool("mq_sp")
		q.ReturnCode = vNondetU8("mq_rc")
	case *mqPkts.PublishPacket:
		q.FixedHeader = fh
		q.TopicName = vNondetString("mq_topic", arg)
		q.MessageID = vNondetU16("mq_msgid")
		q.Payload = vNondetBytes("mq_payload", 2)
	case *mqPkts.PubackPacket:
		q.FixedHeader = fh
		q.MessageID = vNondetU16("mq_msgid")
	case *mqPkts.PubrecPacket:
		q.FixedHeader = fh
		q.MessageID = vNondetU16("mq_msgid")
	case *mqPkts.PubrelPacket:
		q.FixedHeader = fh
		q.MessageID = vNondetU16("mq_msgid")
	case *mqPkts.PubcompPacket:
		q.FixedHeader = fh
		q.MessageID = vNondetU16("mq_msgid")
	case *mqPkts.SubackPacket:
		q.FixedHeader = fh
		q.MessageID = vNondetU16("mq_msgid")
		q.ReturnCodes = vNondetBytes("mq_rcs", arg)
	case *mqPkts.UnsubackPacket:
		q.FixedHeader = fh
		q.MessageID = vNondetU16("mq_msgid")
	case *mqPkts.PingrespPacket:
		q.FixedHeader = fh
	case *mqPkts.PingreqPacket:
		q.FixedHeader = fh
	case *mqPkts.DisconnectPacket:
		q.FixedHeader = fh
	case *mqPkts.ConnectPacket:
		q.FixedHeader = fh
	case *mqPkts.SubscribePacket:
		q.FixedHeader = fh
	case *mqPkts.UnsubscribePacket:
		q.FixedHeader = fh
	}
	return p
}

// step performs one event and runs the oracles.
func (w *vWorld) step(kind, arg int) {
	w.steps++
	w.inKind, w.inSN, w.inMQ, w.err = kind, nil, nil, nil
	w.before()
	switch {
	case kind >= evTIMER:
		w.panicked = vPanics(func() { vAdvance() })
	case kind >= evMQ:
		typ := kind - evMQ
		if w.conform {
			// a conforming broker answers a CONNECT with one CONNACK and sends nothing else before it accepted
			if typ == vmCONNACK {
				vAssume(w.ghost == 1)
			} else {
				vAssume(w.ghost == 2)
			}
		}
		w.inMQ = vMQEvent(typ, arg)
		w.conformTopic(w.inMQ)
		w.panicked = vPanics(func() { w.err = w.x.feedMQ(w.inMQ) })
	default:
		w.inSN = vSNPacket(byte(kind), arg)
		w.panicked = vPanics(func() { w.err = w.x.feedSN(w.inSN) })
	}
	w.snOut = w.x.sn.take()
	w.mqOut = w.x.mq.take()
	w.oracles()
}

// learnTold adds to the ghost set the topic IDs this step told the client.
func (w *vWorld) learnTold() {
	h := w.x.h
	add := func(id uint16) {
		if v, found := h.registeredTopics.Load(id); found {
			w.told = append(w.told, vEntry{id, v.(string)})
		}
	}
	for _, d := range w.snOut {
		r := vParseSN(d)
		if !r.OK || r.TopicID == 0 {
			continue
		}
		switch r.Typ {
		case vtREGACK, vtSUBACK:
			if r.RC == 0 {
				add(r.TopicID)
			}
		}
	}
	// a REGISTER of the gateway that the client accepted
	if ra, ok := w.inSN.(*snPkts1.Regack); ok && w.err == nil {
		if ra.ReturnCode == snPkts1.RC_ACCEPTED {
			add(ra.TopicID)
		}
	}
}

// before records what the oracles need from the pre-state of a step.
func (w *vWorld) before() {
	w.preState = w.x.h.state.Get()
	w.preReg = nil
	if vActive("C04.") {
		vMapOrderFixed(true)
		w.x.h.registeredTopics.Range(func(k, v interface{}) bool {
			w.preReg = append(w.preReg, vEntry{k.(uint16), v.(string)})
			return true
		})
		vMapOrderFixed(false)
	}
}

// conformTopic: a conforming broker publishes on valid topic names only.
func (w *vWorld) conformTopic(pkt mqPkts.ControlPacket) {
	if p, ok := pkt.(*mqPkts.PublishPacket); ok && w.conform {
		vAssume(vAnd(len(p.TopicName) > 0, !vHasWild([]byte(p.TopicName))))
	}
}

func (w *vWorld) plainDisconnectIn() bool {
	d, ok := w.inSN.(*snPkts1.Disconnect)
	return ok && d.Duration == 0
}

func (w *vWorld) oracles() {
	h := w.x.h
	// ---- C25: no packet crashes the session
	vAssert(!w.panicked, "C25.gw_nopanic")
	if w.panicked {
		return
	}
	// Each block below belongs to one property and is evaluated only by that
	// property's check (vActive), written without branching on symbolic values
	// wherever the packet layout allows, so that oracles do not multiply paths.
	if vActive("C23.") {
		for _, d := range w.snOut {
			r := vParseSN(d)
			vAssert(r.OK, "C23.gw_decodes")
			vAssert(vImplies(r.OK, vGwToClient(r.Typ)), "C23.gw_direction")
			vAssert(vImplies(r.OK, r.LenFld == len(d)), "C23.gw_length_field")
			vAssert(len(d) <= 8192, "C23.gw_size")
		}
	}
	sawConnect, sawDisconnect := false, false
	for _, b := range w.mqOut {
		if len(b) > 0 {
			sawConnect = sawConnect || b[0]>>4 == vmCONNECT
			sawDisconnect = sawDisconnect || b[0]>>4 == vmDISCONNECT
		}
	}
	if vActive("C24.") {
		for _, b := range w.mqOut {
			m := vParseMQTT(b)
			vAssert(vAnd(m.OK, m.Size == len(b)), "C24.valid_packet")
			switch m.Typ {
			case vmCONNECT:
				vAssert(vImplies(m.OK, m.ProtoOK), "C24.connect_protocol")
				vAssert(vImplies(m.OK, (m.CFlags&4 != 0) == (len(m.WillTopic) > 0)), "C24.will_flag_iff_topic")
			case vmPUBLISH:
				vAssert(vImplies(m.OK, len(m.Topic) > 0), "C24.publish_topic_nonempty")
				vAssert(vImplies(m.OK, !vHasWild(m.Topic)), "C24.publish_topic_no_wildcard")
			case vmSUBSCRIBE:
				for i, f := range m.Filters {
					vAssert(len(f) > 0, "C24.filter_nonempty")
					vAssert(m.Qoss[i] <= 2, "C24.subscribe_qos")
				}
			case vmUNSUBSCRIBE:
				for _, f := range m.Filters {
					vAssert(len(f) > 0, "C24.filter_nonempty")
				}
			case vmCONNACK, vmSUBACK, vmUNSUBACK, vmPINGRESP:
				vAssert(false, "C24.server_packet_sent_by_client")
			}
		}
		// the registry invariant the PUBLISH path relies on is preserved by every step
		vMapOrderFixed(true)
		h.registeredTopics.Range(func(k, v interface{}) bool {
			name := v.(string)
			vAssert(vAnd(len(name) > 0, !vHasWild([]byte(name))), "C24.registry_names_valid")
			return true
		})
		vMapOrderFixed(false)
	}
	if vActive("C04.") || vActive("C01.") {
		// every topic ID the client was told (accepted REGACK / SUBACK, REGISTER it
		// acknowledged) still denotes the same name: never removed, never renamed
		lbl := "C04.told_id_stable"
		if vActive("C01.") {
			lbl = "C01.told_id_stable"
		}
		for _, e := range w.told {
			v, found := h.registeredTopics.Load(e.id)
			vAssert(found, lbl)
			if found {
				vAssert(v.(string) == e.name, lbl)
			}
		}
	}
	w.learnTold()
	if vActive("C04.") {
		// every ID handed to the client is in range, not predefined for it, and registered
		for _, d := range w.snOut {
			r := vParseSN(d)
			if !r.OK {
				continue
			}
			_, pd := h.predefinedTopics.GetTopicName(h.clientID, r.TopicID)
			inRange := vAnd(r.TopicID >= 1, r.TopicID <= 0xFFFE)
			switch r.Typ {
			case vtREGISTER:
				vReach("C04.id_handed_out")
				vAssert(vAnd(inRange, !pd), "C04.handed_out_id_valid")
			case vtREGACK:
				vAssert(vImplies(r.RC == 0, vAnd(inRange, !pd)), "C04.handed_out_id_valid")
			case vtSUBACK:
				// an accepted SUBACK carries 0 (wildcard / short), the client's own
				// predefined ID, or an ID the gateway registered for the name
				if r.RC == 0 && r.TopicID != 0 {
					_, reg := h.registeredTopics.Load(r.TopicID)
					vAssert(vAnd(inRange, reg != pd), "C04.handed_out_id_valid")
				}
			}
		}
	}
	// ---- C14: MQTT DISCONNECT only for a plain client DISCONNECT
	if sawDisconnect {
		vReach("C14.disconnect_sent")
		vAssert(w.plainDisconnectIn(), "C14.only_plain_disconnect")
	}
	// ---- C07: ghost (always maintained) and invariant
	pre := w.ghost
	if sawConnect {
		// "accepted" is sticky: a repeated CONNECT of an already connected client
		// (deliberate project behaviour) does not un-accept the session
		w.ghost = vIte(pre == 2, 2, 1)
	} else if ca, ok := w.inMQ.(*mqPkts.ConnackPacket); ok {
		w.ghost = vIte(pre == 1, vIte(ca.ReturnCode == mqPkts.Accepted, 2, 0), pre)
	}
	if vActive("C07.") {
		st := h.state.Get()
		vReachIf(st != util.StateDisconnected, "C07.connected_state")
		vAssert(vImplies(st != util.StateDisconnected, w.ghost == 2), "C07.inv")
		for _, d := range w.snOut {
			r := vParseSN(d)
			isAcc := vAnd(r.OK, vAnd(r.Typ == vtCONNACK, r.RC == 0))
			vReachIf(isAcc, "C07.connack_accepted")
			vAssert(vImplies(isAcc, w.ghost == 2), "C07.connack_only_after_accept")
		}
		pub, isPub := w.inSN.(*snPkts1.Publish)
		exc := false
		if isPub {
			exc = vAnd(vAnd(!w.auth, pub.QOS == 3), vOr(pub.TopicIDType == 1, pub.TopicIDType == 2))
		}
		// before the broker accepted: only a CONNECT, or the QoS -1 exception, goes to the broker
		for _, b := range w.mqOut {
			typ := b[0] >> 4
			vLabel("out_typ", uint64(typ))
			ok := vOr(pre == 2, vOr(typ == vmCONNECT, vAnd(exc, typ == vmPUBLISH)))
			vAssert(ok, "C07.nothing_relayed_before_accept")
		}
		if w.inSN != nil {
			inExchange := false
			switch w.inSN.(type) {
			case *snPkts1.Connect, *snPkts1.Auth, *snPkts1.WillTopic, *snPkts1.WillMsg:
				inExchange = true
			}
			if !inExchange {
				vLabel("plain_disconnect", vB2U(w.plainDisconnectIn()))
				illegal := vAnd(w.preState == util.StateDisconnected, !exc)
				vReachIf(illegal, "C07.illegal_before_connect")
				vAssert(vImplies(illegal, vAnd(w.err != nil, len(w.mqOut) == 0)), "C07.illegal_closes_session")
			}
		}
	}
}

// VH_GW_step(kind, arg, nr): one event from an arbitrary invariant-respecting state.
func VH_GW_step(kind, arg, nr int) {
	w := vNewWorld(1, 1, 2)
	w.conform = true
	w.vJump(nr, 2)
	w.step(kind, arg)
}

// ---------------------------------------------------------------------------
// set-ups: short real histories (real handler steps with assumptions that pick
// one family of outcomes) that leave the session in a state with a transaction
// in progress, a sleeping client, etc. Every set-up step is itself checked by
// the oracles.

const (
	suConnectSent     = 1  // CONNECT (no will, auth off): MQTT CONNECT sent, waiting for the broker
	suConnectWill     = 2  // CONNECT with will flag (auth off): WILLTOPICREQ sent
	suConnectAuth     = 3  // CONNECT with auth on: waiting for AUTH
	suWillTopicDone   = 4  // suConnectWill + WILLTOPIC: WILLMSGREQ sent
	suClientPubQ1     = 5  // active; client PUBLISH QoS 1 forwarded, PUBACK pending
	suSubscribePend   = 6  // active; SUBSCRIBE (topic name) forwarded, SUBACK pending
	suBrokerPubReg    = 7  // active; broker PUBLISH on a new topic: REGISTER sent, REGACK pending
	suBrokerPubQ1     = 8  // active; broker PUBLISH QoS 1 on a short topic: PUBACK pending
	suBrokerPubQ2     = 9  // active; broker PUBLISH QoS 2 on a short topic: PUBREC pending
	suBrokerPubQ2Rel  = 10 // ... + PUBREC from the client: PUBREL pending
	suBrokerPubQ2Comp = 11 // ... + PUBREL from the broker: PUBCOMP pending
	suAsleep          = 12 // active; DISCONNECT(duration > 0): asleep
	suAsleepBuffered  = 13 // asleep + a broker PUBLISH QoS 0 on a short topic (buffered)
	suAwake           = 14 // asleep + PINGREQ: awake
	suConnected       = 15 // CONNECT + broker CONNACK accepted: active through a real connect exchange
	suAuthWill        = 16 // auth on, CONNECT with will + AUTH PLAIN: WILLTOPICREQ sent
	suFresh           = 17 // the initial state of a session
	suRegistered      = 18 // active; the client registered a topic name (REGACK accepted)
)

func (w *vWorld) active() {
	w.vJump(0, 0)
	vAssume(w.x.h.state.Get() == util.StateActive)
}

func (w *vWorld) setup(kind int) {
	h := w.x.h
	switch kind {
	case suFresh:
	case suConnectSent, suConnectWill, suConnectAuth, suWillTopicDone, suConnected, suAuthWill:
		c := vSNPacket(vtCONNECT, 5).(*snPkts1.Connect)
		vAssume(c.Duration != 0)
		switch kind {
		case suConnectSent, suConnected:
			vAssume(vAnd(!w.auth, !c.Will))
		case suConnectWill, suWillTopicDone:
			vAssume(vAnd(!w.auth, c.Will))
		case suConnectAuth:
			vAssume(w.auth)
		case suAuthWill:
			vAssume(vAnd(w.auth, c.Will))
		}
		w.stepSN(c)
		vAssume(w.err == nil)
		switch kind {
		case suWillTopicDone:
			wt := vSNPacket(vtWILLTOPIC, 2).(*snPkts1.WillTopic)
			w.stepSN(wt)
			vAssume(w.err == nil)
		case suConnected:
			ca := mqPkts.NewControlPacket(mqPkts.Connack).(*mqPkts.ConnackPacket)
			ca.ReturnCode = mqPkts.Accepted
			w.stepMQ(ca)
			vAssume(vAnd(w.err == nil, h.state.Get() == util.StateActive))
		case suAuthWill:
			au := vSNPacket(vtAUTH, 10).(*snPkts1.Auth)
			vAssume(au.Method == "PLAIN")
			w.stepSN(au)
			vAssume(w.err == nil)
		}
	case suRegistered:
		w.active()
		p := vSNPacket(vtREGISTER, 5).(*snPkts1.Register)
		w.stepSN(p)
		vAssume(vAnd(w.err == nil, len(w.told) == 1))
	case suClientPubQ1:
		w.active()
		p := vSNPacket(vtPUBLISH, 6).(*snPkts1.Publish)
		vAssume(vAnd(p.QOS == 1, p.TopicIDType == 2))
		w.stepSN(p)
		vAssume(w.err == nil)
	case suSubscribePend:
		w.active()
		p := vSNPacket(vtSUBSCRIBE, 4).(*snPkts1.Subscribe)
		vAssume(vAnd(p.TopicIDType == 0, p.QOS <= 2))
		w.stepSN(p)
		vAssume(w.err == nil)
	case suBrokerPubReg:
		w.active()
		p := vMQEvent(vmPUBLISH, 3).(*mqPkts.PublishPacket)
		vAssume(p.Qos <= 2)
		w.stepMQ(p)
		vAssume(vAnd(w.err == nil, len(w.snOut) == 1))
		vAssume(vParseSN(w.snOut[0]).Typ == vtREGISTER)
	case suBrokerPubQ1, suBrokerPubQ2, suBrokerPubQ2Rel, suBrokerPubQ2Comp:
		w.active()
		p := vMQEvent(vmPUBLISH, 2).(*mqPkts.PublishPacket)
		if kind == suBrokerPubQ1 {
			vAssume(p.Qos == 1)
		} else {
			vAssume(p.Qos == 2)
		}
		w.stepMQ(p)
		vAssume(w.err == nil)
		if kind == suBrokerPubQ2Rel || kind == suBrokerPubQ2Comp {
			r := vSNPacket(vtPUBREC, 2).(*snPkts1.Pubrec)
			vAssume(r.MessageID() == p.MessageID)
			w.stepSN(r)
			vAssume(w.err == nil)
		}
		if kind == suBrokerPubQ2Comp {
			r := mqPkts.NewControlPacket(mqPkts.Pubrel).(*mqPkts.PubrelPacket)
			r.MessageID = p.MessageID
			w.stepMQ(r)
			vAssume(w.err == nil)
		}
	case suAsleep, suAsleepBuffered, suAwake:
		w.active()
		d := vSNPacket(vtDISCONNECT, 2).(*snPkts1.Disconnect)
		vAssume(d.Duration != 0)
		w.stepSN(d)
		vAssume(vAnd(w.err == nil, h.state.Get() == util.StateAsleep))
		if kind == suAsleepBuffered || kind == suAwake {
			p := vMQEvent(vmPUBLISH, 2).(*mqPkts.PublishPacket)
			vAssume(p.Qos == 0)
			w.stepMQ(p)
			vAssume(w.err == nil)
		}
		if kind == suAwake {
			pr := vSNPacket(vtPINGREQ, 0)
			w.stepSN(pr)
			// (after the wake-up PINGRESP the client counts as asleep again)
			vAssume(vAnd(w.err == nil, vOr(h.state.Get() == util.StateAwake, h.state.Get() == util.StateAsleep)))
		}
	}
}

func (w *vWorld) stepSN(pkt snPkts.Packet) {
	w.steps++
	w.inKind, w.inSN, w.inMQ, w.err = 0, pkt, nil, nil
	w.before()
	w.panicked = vPanics(func() { w.err = w.x.feedSN(pkt) })
	w.snOut = w.x.sn.take()
	w.mqOut = w.x.mq.take()
	w.oracles()
}

func (w *vWorld) stepMQ(pkt mqPkts.ControlPacket) {
	w.steps++
	w.inKind, w.inSN, w.inMQ, w.err = evMQ, nil, pkt, nil
	w.before()
	w.conformTopic(pkt)
	if w.conform {
		if _, isCA := pkt.(*mqPkts.ConnackPacket); isCA {
			vAssume(w.ghost == 1)
		} else {
			vAssume(w.ghost == 2)
		}
	}
	w.panicked = vPanics(func() { w.err = w.x.feedMQ(pkt) })
	w.snOut = w.x.sn.take()
	w.mqOut = w.x.mq.take()
	w.oracles()
}

// VH_GW_setup2(setup, k2, a2): a set-up followed by one arbitrary event.
func VH_GW_setup2(setup, k2, a2 int) {
	w := vNewWorld(1, 1, 2)
	w.conform = true
	w.setup(setup)
	w.step(k2, a2)
}

// VH_GW_setup3(setup, k2, a2, k3, a3): a set-up followed by two arbitrary events.
func VH_GW_setup3(setup, k2, a2, k3, a3 int) {
	w := vNewWorld(1, 1, 2)
	w.conform = true
	w.setup(setup)
	w.step(k2, a2)
	if w.err != nil {
		return
	}
	w.step(k3, a3)
}

// VH_GW_init: the initial state satisfies the C07 invariant.
func VH_GW_init() {
	w := vNewWorld(1, 1, 2)
	vAssert(w.x.h.state.Get() == util.StateDisconnected, "C07.init")
}
