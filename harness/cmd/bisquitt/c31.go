package main

import (
	"github.com/urfave/cli/v2"

	bisquitt "github.com/energomonitor/bisquitt"
	"github.com/energomonitor/bisquitt/topics"
)

// C31 / C30 (tool part): the real handleAction closure of the gateway tool on a
// symbolic flag table (stubs: root-package overlay).

func vGetTopic(t topics.PredefinedTopics, cid string, id uint16) string {
	if m, ok := t[cid]; ok {
		return m[id]
	}
	return ""
}

func vB2I(b bool) int {
	if b {
		return 1
	}
	return 0
}

func VH_TOOL_gateway() {
	dtls, selfSigned, insecure := vNondetBool("flag_dtls"), vNondetBool("flag_self-signed"), vNondetBool("flag_insecure")
	auth := vNondetBool("flag_auth")
	fileSet, optSet := vNondetBool("flag_predefined-topics-file"), vNondetBool("flag_predefined-topic")
	t := bisquitt.VResetFlags()
	t.Bools[DtlsFlag], t.Bools[SelfSignedFlag], t.Bools[InsecureFlag], t.Bools[AuthFlag] = dtls, selfSigned, insecure, auth
	t.Set[DtlsFlag], t.Set[SelfSignedFlag], t.Set[InsecureFlag], t.Set[AuthFlag] = dtls, selfSigned, insecure, auth
	t.Set[PredefinedTopicsFileFlag] = fileSet
	if fileSet {
		t.Strings[PredefinedTopicsFileFlag] = "topics.yaml"
	}
	t.Set[PredefinedTopicFlag] = optSet
	if optSet {
		t.Slices[PredefinedTopicFlag] = []string{"c;opt/x;9"}
	}
	bisquitt.VFileTopics = topics.PredefinedTopics{"c": {7: "file/x", 9: "file/y"}}
	err := handleAction()(&cli.Context{App: &cli.App{}})
	tr := bisquitt.VTool
	vObserveInt("started", int64(vB2I(tr.Started)))
	if tr.Started {
		vReach("C31.tool_started")
		vAssert(vImplies(auth, vOr(dtls, insecure)), "C31.tool_refuses_plaintext_credentials")
		cfg := tr.GatewayCfg
		vAssert(cfg.UseDTLS == dtls, "C31.tool_dtls_as_requested")
		vAssert(cfg.AuthEnabled == auth, "C31.tool_auth_as_requested")
		if fileSet {
			vReach("C30.tool_file_given")
			vAssert(vAnd(len(tr.FileReads) == 1, vGetTopic(cfg.PredefinedTopics, "c", 7) == "file/x"), "C30.tool_reads_topics_file")
		} else {
			vAssert(len(tr.FileReads) == 0, "C30.tool_reads_topics_file")
		}
		want9 := ""
		if fileSet {
			want9 = "file/y"
		}
		if optSet {
			want9 = "opt/x"
			vReach("C30.tool_option_given")
		}
		vAssert(vGetTopic(cfg.PredefinedTopics, "c", 9) == want9, "C30.tool_option_overrides_file")
	} else {
		vReach("C31.tool_refused")
		vAssert(err != nil, "C31.tool_refusal_is_an_error")
	}
	allowed := !(dtls && !selfSigned) && !(auth && !dtls && !insecure)
	if allowed {
		if !fileSet && !optSet {
			vAssert(tr.Started, "C31.tool_starts_when_allowed")
		}
		vAssert(tr.Started, "C30.tool_starts_when_allowed")
	}
}
