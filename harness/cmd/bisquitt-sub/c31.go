package main

import (
	"github.com/urfave/cli/v2"

	bisquitt "github.com/energomonitor/bisquitt"
	"github.com/energomonitor/bisquitt/topics"
)

// C31 / C30 (tool part): the real handleAction closure of bisquitt-sub executed
// symbolically on a symbolic flag table (see the stubs in the root-package
// overlay). Flags given on the command line and through environment variables
// are the same thing at this level (cli.Context accessors).

type vToolFlags struct {
	dtls, selfSigned, insecure bool
	userSet, userEmpty         bool
	passwordSet                bool
	fileSet, optSet            bool
}

func vPickToolFlags() vToolFlags {
	return vToolFlags{
		dtls: vNondetBool("flag_dtls"), selfSigned: vNondetBool("flag_self-signed"), insecure: vNondetBool("flag_insecure"),
		userSet: vNondetBool("flag_user"), userEmpty: vNondetBool("user_empty"), passwordSet: vNondetBool("flag_password"),
		fileSet: vNondetBool("flag_predefined-topics-file"), optSet: vNondetBool("flag_predefined-topic"),
	}
}

func vFillClientFlags(f vToolFlags) {
	t := bisquitt.VResetFlags()
	t.Bools[DtlsFlag], t.Bools[SelfSignedFlag], t.Bools[InsecureFlag] = f.dtls, f.selfSigned, f.insecure
	t.Set[DtlsFlag], t.Set[SelfSignedFlag], t.Set[InsecureFlag] = f.dtls, f.selfSigned, f.insecure
	t.Set[UserFlag] = f.userSet
	if f.userSet && !f.userEmpty {
		t.Strings[UserFlag] = "u"
	}
	t.Set[PasswordFlag] = f.passwordSet
	if f.passwordSet {
		t.Strings[PasswordFlag] = "p"
	}
	t.Set[ClientIDFlag], t.Strings[ClientIDFlag] = true, "c"
	t.Set[PredefinedTopicsFileFlag] = f.fileSet
	if f.fileSet {
		t.Strings[PredefinedTopicsFileFlag] = "topics.yaml"
	}
	t.Set[PredefinedTopicFlag] = f.optSet
	if f.optSet {
		t.Slices[PredefinedTopicFlag] = []string{"c;opt/x;9"}
	}
	bisquitt.VFileTopics = topics.PredefinedTopics{"c": {7: "file/x", 9: "file/y"}}
}

// vCheckClientTool: the oracle shared by bisquitt-sub and bisquitt-sub.
func vCheckClientTool(f vToolFlags, err error) {
	tr := bisquitt.VTool
	vObserveInt("started", int64(vB2I(tr.Started)))
	credentials := f.userSet
	if tr.Started {
		vReach("C31.tool_started")
		// C31: never started with credentials in plaintext unless --insecure
		vAssert(vImplies(credentials, vOr(f.dtls, f.insecure)), "C31.tool_refuses_plaintext_credentials")
		cfg := tr.ClientCfg
		// the connection is DTLS exactly when asked for, and the credentials are the given ones
		vAssert(cfg.UseDTLS == f.dtls, "C31.tool_dtls_as_requested")
		wantUser := ""
		if f.userSet && !f.userEmpty {
			wantUser = "u"
		}
		vAssert(cfg.User == wantUser, "C31.tool_user_as_given")
		// C30: file first, then the options on top of it
		if f.fileSet {
			vReach("C30.tool_file_given")
			vAssert(vAnd(len(tr.FileReads) == 1, vGetTopic(cfg.PredefinedTopics, "c", 7) == "file/x"), "C30.tool_reads_topics_file")
		} else {
			vAssert(len(tr.FileReads) == 0, "C30.tool_reads_topics_file")
		}
		want9 := ""
		if f.fileSet {
			want9 = "file/y"
		}
		if f.optSet {
			want9 = "opt/x"
			vReach("C30.tool_option_given")
		}
		vAssert(vGetTopic(cfg.PredefinedTopics, "c", 9) == want9, "C30.tool_option_overrides_file")
	} else {
		vReach("C31.tool_refused")
		vAssert(err != nil, "C31.tool_refusal_is_an_error")
	}
	// nothing forbids the start: it starts
	allowed := !(f.dtls && !f.selfSigned) && !(f.userSet && f.userEmpty) && !(credentials && !f.dtls && !f.insecure)
	if allowed {
		if !f.fileSet && !f.optSet {
			vAssert(tr.Started, "C31.tool_starts_when_allowed")
		}
		vAssert(tr.Started, "C30.tool_starts_when_allowed")
	}
}

func vGetTopic(t topics.PredefinedTopics, cid string, id uint16) string {
	if m, ok := t[cid]; ok {
		return m[id]
	}
	return ""
}

func vB2I(b bool) int {
	if b {
		return 1
	}
	return 0
}

func VH_TOOL_sub() {
	f := vPickToolFlags()
	vFillClientFlags(f)
	bisquitt.VFlags.Slices[TopicFlag] = []string{"ab"}
	err := handleAction()(&cli.Context{App: &cli.App{}})
	vCheckClientTool(f, err)
}
