package client

import (
	"time"

	pkts1 "github.com/energomonitor/bisquitt/packets1"
)

// C28: client API calls always return and the client shuts down.

// VH_C28_return(kind, rc, behaviour, typ): one blocking API call against a
// gateway that stays silent forever (behaviour 0), first sends one unsolicited
// packet of type typ with a symbolic body (1), or sends DISCONNECT (2).
func VH_C28_return(kind, rc, behaviour, typ int) {
	cfg := vCfgRetry(rc)
	ct := vNondetDelay("connect_timeout")
	vAssume(vAnd(ct > 0, ct < int64(time.Second)))
	cfg.ConnectTimeout = time.Duration(ct)
	w := vNewCW(cfg)
	c := w.c
	if kind != 0 {
		w.connect()
	}
	sleepFor := time.Duration(0)
	t0 := vNow()
	bound := int64(cfg.RetryDelay) * int64(rc+1)
	switch kind {
	case 0:
		bound = int64(cfg.ConnectTimeout) * int64(rc+1)
		w.call(c.Connect)
	case 1:
		w.call(func() error { return c.Register("ab/c") })
	case 2:
		w.call(func() error { return c.Subscribe("ab/c", 1, nil) })
	case 3:
		w.call(func() error { return c.Publish("ab", []byte("x"), 1, false) })
	case 4:
		w.call(func() error { return c.Publish("ab", []byte("x"), 2, false) })
	case 5:
		w.call(func() error { return c.Unsubscribe("ab/c") })
	case 6:
		w.call(c.Ping)
	case 7:
		sleepFor = 2 * time.Second
		// DISCONNECT phase, the sleep itself, and the library's fixed wait for PINGRESP
		bound += int64(sleepFor) + int64(maxPingrespWait)
		w.call(func() error { return c.Sleep(sleepFor) })
	case 8:
		w.call(c.Disconnect)
	case 9:
		// Sleep from the awake state: a first sleep cycle completes normally, then Sleep again
		// (no DISCONNECT is sent this time; the wake-up timer is the only thing armed)
		sleepFor = 2 * time.Second
		w.call(func() error { return c.Sleep(sleepFor) })
		w.gwSends(pkts1.NewDisconnect(0))
		vSleepUntil(vNow() + int64(sleepFor) + int64(100*time.Millisecond))
		w.gwSends(pkts1.NewPingresp())
		vAssume(vAnd(w.ret, w.err == nil))
		w.conn.take()
		t0 = vNow()
		bound = int64(sleepFor) + int64(maxPingrespWait)
		w.call(func() error { return c.Sleep(sleepFor) })
		// the gateway misbehaves at a symbolic instant during the sleep
		at := vNondetDelay("misbehaves_after")
		vAssume(vAnd(at >= 0, at < int64(sleepFor)))
		vSleepUntil(vNow() + at)
	}
	switch behaviour {
	case 1:
		w.gwSendsRaw(vGwDatagram(byte(typ), vChoose(3)+vMinBody(byte(typ))))
	case 2:
		w.gwSends(pkts1.NewDisconnect(0))
	}
	if !w.ret {
		vSleepUntil(t0 + bound + int64(50*time.Millisecond))
	}
	vReach("C28.waited")
	vAssert(w.ret, "C28.call_returns_within_bound")
	// shutdown: Close() returns and, once every timer has fired, no goroutine of the client is left
	closed := false
	vGo(func() {
		c.Close()
		closed = true
	})
	vRunUntilIdle()
	vSleepUntil(vNow() + bound + int64(2*time.Second))
	vAssert(closed, "C28.close_returns")
	vSleepUntil(vNow() + int64(maxPingrespWait) + int64(3*time.Second))
	vAssert(vLiveTasks() <= 0, "C28.no_goroutine_left")
}

// vMinBody: the smallest decodable body of each packet type.
func vMinBody(t byte) int {
	switch t {
	case vtADVERTISE:
		return 3
	case vtSEARCHGW, vtGWINFO, vtCONNACK, vtWILLTOPICRESP, vtWILLMSGRESP:
		return 1
	case vtAUTH, vtPUBCOMP, vtPUBREC, vtPUBREL, vtUNSUBACK:
		return 2
	case vtCONNECT, vtREGISTER, vtREGACK, vtPUBLISH, vtPUBACK:
		return 5
	case vtSUBSCRIBE, vtUNSUBSCRIBE:
		return 4
	case vtSUBACK:
		return 6
	}
	return 0
}
