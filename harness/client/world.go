package client

import (
	"io"
	"net"
	"time"

	pkts "github.com/energomonitor/bisquitt/packets"
	pkts1 "github.com/energomonitor/bisquitt/packets1"
	"github.com/energomonitor/bisquitt/topics"
	"github.com/energomonitor/bisquitt/util"
)

// Client-library world: a real Client (real Dial with mockupDialFunc, real
// receiveLoop, real transactions) on a channel-backed connection with read
// deadlines; API calls run as tasks; the gateway side is the harness.

type vTimeoutErr struct{}

func (vTimeoutErr) Error() string   { return "timeout" }
func (vTimeoutErr) Timeout() bool   { return true }
func (vTimeoutErr) Temporary() bool { return true }

type vChanConn struct {
	in     chan []byte
	out    [][]byte
	outAt  []int64
	closed int
	rd     time.Time
	eof    bool
	// autoPong: the gateway answers every PINGREQ at once
	autoPong bool
	// autoDisc: the gateway answers every DISCONNECT at once
	autoDisc bool
}

func vNewChanConn() *vChanConn { return &vChanConn{in: make(chan []byte, 16)} }

func (c *vChanConn) Read(p []byte) (int, error) {
	if c.eof {
		return 0, io.EOF
	}
	d := time.Until(c.rd)
	if d < 0 {
		d = 0
	}
	timer := time.NewTimer(d)
	select {
	case b, ok := <-c.in:
		timer.Stop()
		if !ok {
			c.eof = true
			return 0, io.EOF
		}
		return copy(p, b), nil
	case <-timer.C:
		return 0, vTimeoutErr{}
	}
}
func (c *vChanConn) Write(p []byte) (int, error) {
	b := make([]byte, len(p))
	copy(b, p)
	c.out = append(c.out, b)
	c.outAt = append(c.outAt, vNow())
	if c.autoPong && len(p) >= 2 && p[1] == vtPINGREQ && len(c.in) < cap(c.in) {
		c.in <- []byte{2, vtPINGRESP}
	}
	if c.autoDisc && len(p) >= 2 && p[1] == vtDISCONNECT && len(c.in) < cap(c.in) {
		c.in <- []byte{2, vtDISCONNECT}
	}
	return len(p), nil
}
func (c *vChanConn) Close() error                       { c.closed++; return nil }
func (c *vChanConn) LocalAddr() net.Addr                { return nil }
func (c *vChanConn) RemoteAddr() net.Addr               { return nil }
func (c *vChanConn) SetDeadline(t time.Time) error      { c.rd = t; return nil }
func (c *vChanConn) SetReadDeadline(t time.Time) error  { c.rd = t; return nil }
func (c *vChanConn) SetWriteDeadline(t time.Time) error { return nil }
func (c *vChanConn) take() [][]byte {
	o := c.out
	c.out, c.outAt = nil, nil
	return o
}

type vCW struct {
	c    *Client
	conn *vChanConn
	cfg  *ClientConfig
	// result of the API call in flight
	ret  bool
	err  error
	retAt int64
	// message handler invocations
	got []string
}

func vNewCW(cfg *ClientConfig) *vCW {
	w := &vCW{conn: vNewChanConn(), cfg: cfg}
	w.c = NewClient(util.NoOpLogger{}, cfg)
	w.c.mockupDialFunc = func() (net.Conn, error) { return w.conn, nil }
	vOnTaskPanic("C25.cl_nopanic")
	if err := w.c.Dial("gw"); err != nil {
		vAssume(false)
	}
	vRunUntilIdle()
	return w
}

func vDefaultCfg(pre topics.PredefinedTopics) *ClientConfig {
	return &ClientConfig{ClientID: "c", RetryDelay: time.Second, RetryCount: 1, ConnectTimeout: 2 * time.Second, PredefinedTopics: pre}
}

// call runs an API call as a task.
func (w *vCW) call(f func() error) {
	w.ret, w.err = false, nil
	vGo(func() {
		w.err = f()
		w.ret = true
		w.retAt = vNow()
	})
	vRunUntilIdle()
}

// gwSends delivers a datagram from the gateway.
func (w *vCW) gwSends(pkt pkts.Packet) {
	b, _ := pkt.Pack()
	w.conn.in <- b
	vRunUntilIdle()
}

func (w *vCW) gwSendsRaw(b []byte) {
	w.conn.in <- b
	vRunUntilIdle()
}

// vGwDatagram: a datagram of the given type with an entirely symbolic body
// (the client decodes it with the real decoder; undecodable ones end its receive loop).
func vGwDatagram(typ byte, bodyLen int) []byte {
	body := vNondetBytes("gw_body", bodyLen)
	return append([]byte{byte(bodyLen + 2), typ}, body...)
}

// connect performs a real connect exchange: Connect() in a task, CONNACK accepted.
func (w *vCW) connect() {
	w.call(w.c.Connect)
	w.conn.take()
	w.gwSends(pkts1.NewConnack(pkts1.RC_ACCEPTED))
	vAssume(vAnd(w.ret, w.err == nil))
}

func (w *vCW) handler(tag string) MessageHandlerFunc {
	return func(c *Client, topic string, pkt *pkts1.Publish) {
		w.got = append(w.got, tag)
	}
}

// set-ups of the client: an API call in flight, a sleep phase, ...
const (
	cuFresh      = 0 // dialled, not connected
	cuConnecting = 1 // Connect() in flight
	cuActive     = 2
	cuRegister   = 3 // Register() in flight
	cuSubscribe  = 4
	cuPublishQ1  = 5
	cuPublishQ2  = 6 // awaiting PUBREC
	cuPublishQ2b = 7 // PUBREC received, awaiting PUBCOMP
	cuUnsub      = 8
	cuPing       = 9
	cuSleepReq   = 10 // Sleep(): DISCONNECT(d) sent, awaiting the gateway's DISCONNECT
	cuAsleep     = 11
	cuAwake      = 12 // woke up: PINGREQ sent, awaiting PINGRESP
	cuDisconnect = 13 // Disconnect() in flight
	cuBrokerQ2   = 14 // a QoS 2 PUBLISH from the gateway received (PUBREC sent), awaiting PUBREL
	cuSubscribed = 15 // active with one completed subscription to a plain topic
)

func (w *vCW) setup(kind int) {
	c := w.c
	if kind == cuFresh {
		return
	}
	if kind == cuConnecting {
		w.call(c.Connect)
		return
	}
	w.connect()
	switch kind {
	case cuRegister:
		w.call(func() error { return c.Register("ab/c") })
	case cuSubscribe:
		w.call(func() error { return c.Subscribe("ab/c", 1, w.handler("h")) })
	case cuSubscribed:
		w.call(func() error { return c.Subscribe("ab/c", 1, w.handler("h")) })
		sa := pkts1.NewSuback(5, pkts1.RC_ACCEPTED, 1)
		sa.SetMessageID(vLastMsgID(w.conn.take()))
		w.gwSends(sa)
		vAssume(vAnd(w.ret, w.err == nil))
	case cuPublishQ1, cuPublishQ2, cuPublishQ2b:
		q := uint8(1)
		if kind != cuPublishQ1 {
			q = 2
		}
		w.call(func() error { return c.Publish("ab", vNondetBytes("payload", 1), q, false) })
		if kind == cuPublishQ2b {
			pr := pkts1.NewPubrec()
			pr.SetMessageID(vLastMsgID(w.conn.take()))
			w.gwSends(pr)
		}
	case cuUnsub:
		w.call(func() error { return c.Unsubscribe("ab/c") })
	case cuPing:
		w.call(c.Ping)
	case cuSleepReq, cuAsleep, cuAwake:
		w.call(func() error { return c.Sleep(3 * time.Second) })
		if kind != cuSleepReq {
			w.gwSends(pkts1.NewDisconnect(0))
			vAssume(c.state.Get() == util.StateAsleep)
		}
		if kind == cuAwake {
			vSleepUntil(vNow() + int64(3*time.Second))
			vAssume(c.state.Get() == util.StateAwake)
		}
	case cuDisconnect:
		w.call(c.Disconnect)
	case cuBrokerQ2:
		p := pkts1.NewPublish(pkts.EncodeShortTopic("ab"), vNondetBytes("payload", 1), false, 2, false, pkts1.TIT_SHORT)
		p.SetMessageID(vNondetU16("msgid"))
		w.gwSends(p)
	}
}

// vLastMsgID: message ID of the last datagram with one (PUBLISH/SUBSCRIBE/REGISTER/UNSUBSCRIBE).
func vLastMsgID(out [][]byte) uint16 {
	var id uint16
	for _, d := range out {
		if r := vParseSN(d); r.OK {
			id = r.MsgID
		}
	}
	return id
}

// oracle over everything the client wrote
func (w *vCW) checkOut(out [][]byte) {
	for _, d := range out {
		r := vParseSN(d)
		vAssert(r.OK, "C23.cl_decodes")
		vAssert(vImplies(r.OK, vClientToGw(r.Typ)), "C23.cl_direction")
		vAssert(vImplies(r.OK, r.LenFld == len(d)), "C23.cl_length_field")
		vAssert(len(d) <= 8192, "C23.cl_size")
	}
}

// VH_CL_event(setup, typ, bodyLen): a set-up, then one arbitrary datagram of
// the given type from the gateway. Nothing may panic (C25), and everything the
// client sends is well-formed (C23).
func VH_CL_event(setup, typ, bodyLen int) {
	w := vNewCW(vDefaultCfg(nil))
	w.setup(setup)
	w.checkOut(w.conn.take())
	w.gwSendsRaw(vGwDatagram(byte(typ), bodyLen))
	vReach("C25.cl_event_delivered")
	w.checkOut(w.conn.take())
	// let the retry timers of whatever is in flight run out
	for i := 0; i < 12 && vAdvance(); i++ {
		w.checkOut(w.conn.take())
	}
	vAssert(true, "C25.cl_nopanic")
}

// VH_CL_api(kind, n): every API entry point once, with symbolic arguments
// (payload / name of n bytes), on an active client: what it sends is well-formed.
func VH_CL_api(kind int, n int) {
	pre := topics.PredefinedTopics{}
	pre.Add("c", "pre/topic", 7)
	w := vNewCW(vDefaultCfg(pre))
	c := w.c
	if kind != 0 {
		w.connect()
	}
	qos := vNondetU8("qos")
	vAssume(qos <= 3)
	switch kind {
	case 0:
		w.cfg.User = vNondetString("user", n%3)
		w.cfg.Password = vNondetBytes("password", 1)
		w.cfg.WillTopic = vNondetString("willtopic", n%2)
		w.call(c.Connect)
	case 1:
		w.call(func() error { return c.Register(vNondetString("name", n)) })
	case 2:
		w.call(func() error { return c.Subscribe(vNondetString("name", n), qos, nil) })
	case 3:
		w.call(func() error { return c.SubscribePredefined(vNondetU16("id"), qos, nil) })
	case 4:
		c.registeredTopics["abc"] = vNondetU16("regid")
		topic := "abc"
		if n%2 == 1 {
			topic = vNondetString("short", 2)
		}
		w.call(func() error { return c.Publish(topic, vNondetBytes("payload", n), qos, vNondetBool("retain")) })
	case 5:
		w.call(func() error { return c.PublishPredefined(vNondetU16("id"), vNondetBytes("payload", n), qos, vNondetBool("retain")) })
	case 6:
		w.call(func() error { return c.Unsubscribe(vNondetString("name", n)) })
	case 7:
		w.call(func() error { return c.UnsubscribePredefined(vNondetU16("id")) })
	case 8:
		w.call(c.Ping)
	case 9:
		d := time.Duration(vNondetU16("sleep")) * time.Second
		w.call(func() error { return c.Sleep(d) })
	case 10:
		w.call(c.Disconnect)
	}
	vReach("C23.cl_api_called")
	w.checkOut(w.conn.take())
	for i := 0; i < 8 && vAdvance(); i++ {
		w.checkOut(w.conn.take())
	}
}
