package client

import (
	"bytes"
	"time"

	pkts "github.com/energomonitor/bisquitt/packets"
	pkts1 "github.com/energomonitor/bisquitt/packets1"
	"github.com/energomonitor/bisquitt/transactions"
)

// C17: client library QoS guarantees under loss.

func vCfgRetry(rc int) *ClientConfig {
	cfg := vDefaultCfg(nil)
	cfg.RetryCount = uint(rc)
	d := vNondetDelay("retry_delay")
	vAssume(vAnd(d > 0, d < int64(time.Second)))
	cfg.RetryDelay = time.Duration(d)
	return cfg
}

// wait lets one RetryDelay of virtual time pass (every timer due by then fires).
func (w *vCW) wait() { vSleepUntil(vNow() + int64(w.cfg.RetryDelay)) }

// VH_C17_publish(qos, rc): Publish with QoS 1 or 2; for every datagram the
// client sends, the gateway answers, stays silent until the retry timer fires,
// or answers twice (symbolic choice).
func VH_C17_publish(qos, rc int) {
	w := vNewCW(vCfgRetry(rc))
	w.connect()
	c := w.c
	payload := vNondetBytes("payload", 2)
	w.call(func() error { return c.Publish("ab", payload, uint8(qos), vNondetBool("retain")) })
	out := w.conn.take()
	vAssert(len(out) == 1, "C17.publish_sent")
	if len(out) != 1 {
		return
	}
	first := vParseSN(out[0])
	vAssert(vAnd(first.OK, vAnd(first.Typ == vtPUBLISH, first.Flags&0x80 == 0)), "C17.first_publish_not_dup")
	msgID := first.MsgID
	phase := 1 // 1: awaiting PUBACK/PUBREC; 2: awaiting PUBCOMP
	unanswered := 0
	acked := false
	for step := 0; step < 2*(rc+2) && !w.ret; step++ {
		switch vChoose(3) {
		case 1: // silence: the retry timer fires
			w.wait()
			unanswered++
			re := w.conn.take()
			if unanswered <= rc {
				vReach("C17.retransmission")
				vAssert(len(re) == 1, "C17.one_retransmission_per_timeout")
				if len(re) == 1 {
					r := vParseSN(re[0])
					if phase == 1 {
						vAssert(vAnd(r.OK, vAnd(r.Typ == vtPUBLISH, r.MsgID == msgID)), "C17.retransmission_same_id")
						vAssert(r.Flags&0x80 != 0, "C17.retransmission_has_dup")
						vAssert(vAnd(bytes.Equal(r.Str, first.Str), vAnd(r.TopicID == first.TopicID, r.Flags&0x7f == first.Flags&0x7f)), "C17.retransmission_same_content")
					} else {
						vAssert(vAnd(r.OK, vAnd(r.Typ == vtPUBREL, r.MsgID == msgID)), "C17.retransmission_same_id")
					}
				}
			} else {
				vAssert(len(re) == 0, "C17.no_retransmission_beyond_budget")
			}
		case 0, 2: // the gateway answers (case 2: twice)
			n := 1
			if vChoose(2) == 1 {
				n = 2
			}
			for i := 0; i < n; i++ {
				if phase == 1 && qos == 1 {
					a := pkts1.NewPuback(first.TopicID, pkts1.RC_ACCEPTED)
					a.SetMessageID(msgID)
					w.gwSends(a)
					acked = true
				} else if phase == 1 {
					a := pkts1.NewPubrec()
					a.SetMessageID(msgID)
					w.gwSends(a)
				} else {
					a := pkts1.NewPubcomp()
					a.SetMessageID(msgID)
					w.gwSends(a)
					acked = true
				}
			}
			unanswered = 0
			if phase == 1 && qos == 2 {
				rel := w.conn.take()
				vAssert(len(rel) >= 1, "C17.pubrec_answered_with_pubrel")
				for _, d := range rel {
					r := vParseSN(d)
					vAssert(vAnd(r.OK, vAnd(r.Typ == vtPUBREL, r.MsgID == msgID)), "C17.pubrel_same_id")
				}
				phase = 2
			}
		}
	}
	// let everything run out
	for i := 0; i < rc+3 && !w.ret; i++ {
		w.wait()
	}
	vAssert(w.ret, "C17.publish_returns")
	if w.ret {
		if acked {
			vReach("C17.acked")
			vAssert(w.err == nil, "C17.nil_iff_acknowledged")
		} else {
			vReach("C17.not_acked")
			vAssert(w.err == transactions.ErrNoMoreRetries, "C17.nil_iff_acknowledged")
		}
	}
}

// VH_C17_subscribe(rc): retransmitted SUBSCRIBEs carry DUP and the original message ID.
func VH_C17_subscribe(rc int) {
	w := vNewCW(vCfgRetry(rc))
	w.connect()
	c := w.c
	w.call(func() error { return c.Subscribe("ab/c", vNondetU8("qos")&1, nil) })
	out := w.conn.take()
	vAssume(len(out) == 1)
	first := vParseSN(out[0])
	for i := 0; i < rc; i++ {
		w.wait()
		re := w.conn.take()
		vAssert(len(re) == 1, "C17.one_retransmission_per_timeout")
		if len(re) == 1 {
			r := vParseSN(re[0])
			vAssert(vAnd(r.OK, vAnd(r.Typ == vtSUBSCRIBE, r.MsgID == first.MsgID)), "C17.retransmission_same_id")
			vAssert(r.Flags&0x80 != 0, "C17.retransmission_has_dup")
		}
	}
	w.wait()
	vAssert(vAnd(w.ret, w.err == transactions.ErrNoMoreRetries), "C17.subscribe_fails_after_budget")
}

// VH_C17_pubrel(dup): an incoming QoS 2 PUBLISH; every PUBREL - also a repeated
// one for an exchange the client has already finished - is answered by PUBCOMP.
func VH_C17_pubrel(repeats int) {
	w := vNewCW(vDefaultCfg(nil))
	w.connect()
	id := vNondetU16("msgid")
	p := pkts1.NewPublish(pkts.EncodeShortTopic("ab"), vNondetBytes("payload", 1), false, 2, false, pkts1.TIT_SHORT)
	p.SetMessageID(id)
	w.gwSends(p)
	out := w.conn.take()
	vAssert(vAnd(len(out) == 1, vCount(out, vtPUBREC) == 1), "C17.publish_qos2_gets_pubrec")
	for i := 0; i <= repeats; i++ {
		rel := pkts1.NewPubrel()
		rel.SetMessageID(id)
		w.gwSends(rel)
		out = w.conn.take()
		ok := len(out) == 1
		if ok {
			r := vParseSN(out[0])
			ok = vAnd(r.OK, vAnd(r.Typ == vtPUBCOMP, r.MsgID == id))
		}
		if i == 0 {
			vAssert(ok, "C17.pubrel_answered")
		} else {
			vReach("C17.repeated_pubrel")
			vAssert(ok, "C17.repeated_pubrel_answered")
		}
	}
}

func vCount(out [][]byte, typ byte) int {
	n := 0
	for _, d := range out {
		if r := vParseSN(d); r.OK && r.Typ == typ {
			n++
		}
	}
	return n
}

// VH_C17_pubrel_two: two incoming QoS 2 exchanges with distinct symbolic message
// IDs, sequential or interleaved (symbolic choice), both finished; then the
// PUBREL of each is retransmitted (the client's PUBCOMP was lost), in either
// order: every one is answered with a PUBCOMP of its own message ID - the
// answer may not depend on which exchange the client finished last.
func VH_C17_pubrel_two() {
	w := vNewCW(vDefaultCfg(nil))
	w.connect()
	var ids [2]uint16
	ids[0], ids[1] = vNondetU16("msgid_a"), vNondetU16("msgid_b")
	vAssume(ids[0] != ids[1])
	publish := func(j int) {
		p := pkts1.NewPublish(pkts.EncodeShortTopic("ab"), vNondetBytes("payload", 1), false, 2, false, pkts1.TIT_SHORT)
		p.SetMessageID(ids[j])
		w.gwSends(p)
		out := w.conn.take()
		vAssert(vAnd(len(out) == 1, vCount(out, vtPUBREC) == 1), "C17.publish_qos2_gets_pubrec")
	}
	pubrel := func(j int, label string) {
		rel := pkts1.NewPubrel()
		rel.SetMessageID(ids[j])
		w.gwSends(rel)
		out := w.conn.take()
		ok := len(out) == 1
		if ok {
			r := vParseSN(out[0])
			ok = vAnd(r.OK, vAnd(r.Typ == vtPUBCOMP, r.MsgID == ids[j]))
		}
		vAssert(ok, label)
	}
	interleaved := vChoose(2) == 1
	publish(0)
	if interleaved {
		publish(1)
	}
	pubrel(0, "C17.pubrel_answered")
	if !interleaved {
		publish(1)
	}
	pubrel(1, "C17.pubrel_answered")
	first := vChoose(2)
	vReach("C17.repeated_pubrel_after_other_exchange")
	pubrel(first, "C17.repeated_pubrel_answered")
	pubrel(1-first, "C17.repeated_pubrel_answered")
	// and once more for the one answered first (its exchange is two exchanges back now)
	pubrel(first, "C17.repeated_pubrel_answered")
}
