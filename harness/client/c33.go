package client

import (
	"time"

	pkts1 "github.com/energomonitor/bisquitt/packets1"
	"github.com/energomonitor/bisquitt/util"
)

// C33: client keep-alive pings only while active.

type vPing struct {
	at        int64
	keepalive bool // empty client ID: a keep-alive ping (the wake-up ping carries the client ID)
}

func (w *vCW) pings() []vPing {
	var out []vPing
	for i, d := range w.conn.out {
		r := vParseSN(d)
		if r.OK && r.Typ == vtPINGREQ {
			out = append(out, vPing{w.conn.outAt[i], len(r.Str) == 0})
		}
	}
	return out
}

func vKACfg(rc int) (*ClientConfig, int64) {
	cfg := vCfgRetry(rc)
	k := int64(2 * time.Second)
	cfg.KeepAlive = time.Duration(k)
	return cfg, k
}

// answerPings: the gateway answers every PINGREQ it has received so far.
func (w *vCW) answerPings(answered *int) {
	n := 0
	for _, d := range w.conn.out {
		if r := vParseSN(d); r.OK && r.Typ == vtPINGREQ {
			n++
		}
	}
	for *answered < n {
		*answered++
		w.gwSends(pkts1.NewPingresp())
	}
}

// VH_C33_active(answer): an active, otherwise idle client over 3.5 keep-alive
// periods; the gateway answers every ping (answer = 1) or none (answer = 0).
// While active, consecutive keep-alive pings (and connect -> first ping) are at
// most one KeepAlive apart, plus the retry budget of a ping still in flight.
func VH_C33_active(answer int) {
	cfg, k := vKACfg(1)
	w := vNewCW(cfg)
	w.connect()
	w.conn.autoPong = answer == 1
	tConn := vNow()
	answered := 0
	end := tConn + 3*k + k/2
	for vNow() < end && w.c.state.Get() == util.StateActive {
		vSleepUntil(vNow() + k/4)
	}
	_ = answered
	ps := w.pings()
	if answer == 1 {
		vAssert(len(ps) >= 3, "C33.pings_while_active")
	}
	last := tConn
	allow := int64(0)
	if answer == 0 {
		// an unanswered ping is retried RetryCount times before the client gives up
		allow = int64(cfg.RetryDelay) * int64(cfg.RetryCount+1)
	}
	for _, p := range ps {
		vAssert(vTimeLe(p.at, last+k+allow), "C33.ping_at_least_every_keepalive")
		last = p.at
	}
	vReach("C33.active_done")
}

// VH_C33_sleep(answer): the client calls Sleep at an arbitrary instant within
// the first two keep-alive periods; a keep-alive ping may be in flight
// (unanswered when answer = 0; answered after the Sleep call when answer = 2). Once the client is asleep it sends no
// keep-alive PINGREQ (retransmissions included), and the Sleep call itself is
// not failed by the keep-alive exchange.
func VH_C33_sleep(answer int) {
	cfg, k := vKACfg(1)
	w := vNewCW(cfg)
	w.connect()
	w.conn.autoPong = answer == 1
	answered := 0
	wait := vNondetDelay("sleep_at")
	vAssume(vAnd(wait > 0, wait < 2*k+k/2))
	if answer == 0 || answer == 2 {
		// the first keep-alive ping (sent at k) is still in flight, within its retry budget
		vAssume(vAnd(wait > k, wait < k+int64(cfg.RetryDelay)*int64(cfg.RetryCount+1)))
	}
	// (answer = 2: the ping in flight is answered, but only after Sleep has been called)
	vLabel("ping_in_flight", vB2U(answer == 0))
	vSleepUntil(vNow() + wait)
	_ = answered
	d := 3 * time.Second
	w.call(func() error { return w.c.Sleep(d) })
	if answer == 2 {
		w.gwSends(pkts1.NewPingresp())
		vReach("C33.late_pingresp")
	}
	// the gateway confirms the sleep request
	w.gwSends(pkts1.NewDisconnect(0))
	_ = answered
	w.conn.autoPong = false
	asleepAt := vNow()
	isAsleep := w.c.state.Get() == util.StateAsleep
	vAssert(isAsleep, "C33.sleep_takes_effect")
	if !isAsleep {
		return
	}
	// while asleep: no keep-alive ping
	vSleepUntil(asleepAt + int64(d) - int64(50*time.Millisecond))
	for _, p := range w.pings() {
		vAssert(vOr(!p.keepalive, p.at <= asleepAt), "C33.no_keepalive_ping_while_asleep")
	}
	// wake-up: the wake-up ping is answered; Sleep returns nil
	vSleepUntil(asleepAt + int64(d) + int64(50*time.Millisecond))
	w.gwSends(pkts1.NewPingresp())
	vSleepUntil(vNow() + int64(100*time.Millisecond))
	vReach("C33.slept")
	vAssert(vAnd(w.ret, w.err == nil), "C33.sleep_not_failed_by_keepalive")
}

// VH_C33_disconnect(answer): Disconnect at an arbitrary instant; afterwards no
// keep-alive ping is sent, and Disconnect returns nil.
func VH_C33_disconnect(answer int) {
	cfg, k := vKACfg(1)
	w := vNewCW(cfg)
	w.connect()
	w.conn.autoPong = answer == 1
	answered := 0
	wait := vNondetDelay("disconnect_at")
	vAssume(vAnd(wait > 0, wait < 2*k+k/2))
	if answer == 0 {
		vAssume(vAnd(wait > k, wait < k+int64(cfg.RetryDelay)*int64(cfg.RetryCount+1)))
	}
	vLabel("ping_in_flight", uint64(1-answer))
	vSleepUntil(vNow() + wait)
	_ = answered
	w.call(w.c.Disconnect)
	w.gwSends(pkts1.NewDisconnect(0))
	discAt := vNow()
	vSleepUntil(discAt + 3*k)
	vAssert(vAnd(w.ret, w.err == nil), "C33.disconnect_not_failed_by_keepalive")
	for _, p := range w.pings() {
		vAssert(vOr(!p.keepalive, p.at <= discAt), "C33.no_keepalive_ping_after_disconnect")
	}
	vReach("C33.disconnected")
}

// VH_C33_awake: a slow awake phase. The client (no keep-alive ping in flight)
// sleeps for 3 s, wakes up and sends its wake-up PINGREQ; the gateway answers
// only after a symbolic delay of up to 2.5 keep-alive periods (the client
// waits up to a minute for it). Between falling asleep and the PINGRESP the
// client is asleep or awake, never active: it sends no keep-alive PINGREQ, and
// the PINGRESP ends the Sleep call with nil.
func VH_C33_awake() {
	cfg, k := vKACfg(1)
	w := vNewCW(cfg)
	w.connect()
	w.conn.autoPong = true
	wait := vNondetDelay("sleep_at")
	vAssume(vAnd(wait > 0, wait < k))
	vSleepUntil(vNow() + wait)
	d := 3 * time.Second
	w.call(func() error { return w.c.Sleep(d) })
	w.gwSends(pkts1.NewDisconnect(0))
	w.conn.autoPong = false
	asleepAt := vNow()
	vAssume(w.c.state.Get() == util.StateAsleep)
	awakeFor := vNondetDelay("awake_for")
	vAssume(vAnd(awakeFor >= int64(50*time.Millisecond), awakeFor < 2*k+k/2))
	vSleepUntil(asleepAt + int64(d) + awakeFor)
	vAssert(w.c.state.Get() != util.StateActive, "C33.not_active_before_pingresp")
	for _, p := range w.pings() {
		vAssert(vOr(!p.keepalive, p.at <= asleepAt), "C33.no_keepalive_ping_while_awake")
	}
	w.gwSends(pkts1.NewPingresp())
	vSleepUntil(vNow() + int64(100*time.Millisecond))
	vReach("C33.slow_awake_done")
	vAssert(vAnd(w.ret, w.err == nil), "C33.sleep_not_failed_by_keepalive")
}
