package client

import (
	"context"
	"net"

	"golang.org/x/sync/errgroup"

	pkts "github.com/energomonitor/bisquitt/packets"
	"github.com/energomonitor/bisquitt/util"
)

// Exported harness hooks (overlay only): let harnesses of other packages drive
// a real Client on a connection of their own, without its receive loop.

func VNewClientOnConn(cfg *ClientConfig, conn net.Conn) *Client {
	c := NewClient(util.NoOpLogger{}, cfg)
	ctx, cancel := context.WithCancel(context.Background())
	c.cancel = cancel
	c.group, c.groupCtx = errgroup.WithContext(ctx)
	c.conn = conn
	return c
}

func VHandlePacket(c *Client, pkt pkts.Packet) error { return c.handlePacket(pkt) }

func VSetActive(c *Client) { c.state.Set(util.StateActive) }

// VSetRegistered: the client knows topic name under the given ID (as after an accepted REGACK / SUBACK / REGISTER).
func VSetRegistered(c *Client, name string, id uint16) { c.registeredTopics[name] = id }

// VInstallHandler files a message handler for a filter (as a completed Subscribe does).
func VInstallHandler(c *Client, filter string, cb MessageHandlerFunc) {
	c.messageHandlers.store(split(filter), cb)
}

func vB2U(b bool) uint64 {
	if b {
		return 1
	}
	return 0
}

// VDialOnConn: a real Client after a real Dial (receive loop and keep-alive loop running) on the given connection.
func VDialOnConn(cfg *ClientConfig, conn net.Conn) *Client {
	c := NewClient(util.NoOpLogger{}, cfg)
	c.mockupDialFunc = func() (net.Conn, error) { return conn, nil }
	if err := c.Dial("gw"); err != nil {
		return nil
	}
	return c
}

func VState(c *Client) util.ClientState { return c.state.Get() }

func VCfg(c *Client) *ClientConfig { return c.cfg }
