package client

import (
	"context"
	"net"

	"golang.org/x/sync/errgroup"

	pkts "github.com/energomonitor/bisquitt/packets"
	"github.com/energomonitor/bisquitt/util"
)

// Exported harness hooks (overlay only): let harnesses of other packages drive
// a real Client on a connection of their own, without its receive loop.

func VNewClientOnConn(cfg *ClientConfig, conn net.Conn) *Client {
	c := NewClient(util.NoOpLogger{}, cfg)
	ctx, cancel := context.WithCancel(context.Background())
	c.cancel = cancel
	c.group, c.groupCtx = errgroup.WithContext(ctx)
	c.conn = conn
	return c
}

func VHandlePacket(c *Client, pkt pkts.Packet) error { return c.handlePacket(pkt) }

func VSetActive(c *Client) { c.state.Set(util.StateActive) }
