package client

import (
	"time"

	pkts1 "github.com/energomonitor/bisquitt/packets1"
)

// C18 (client/sleep_transaction.go timers): Sleep() on one goroutine, the
// gateway's immediate DISCONNECT reply handled by the receive loop on another,
// interleaved pre-emptively (context bound `bound`). The reply must end the
// DISCONNECT phase: no resend timer may stay armed, the sleep must run its
// course and Sleep() must return nil after the wake-up PINGRESP.
func VH_C18_sleep_race(bound int) {
	cfg := vDefaultCfg(nil)
	cfg.RetryCount = 1
	w := vNewCW(cfg)
	vOnTaskPanic("C18.sleep_race_no_panic")
	w.connect()
	w.conn.take()
	w.conn.autoDisc = true
	d := 3 * time.Second
	vPreempt(bound)
	w.call(func() error { return w.c.Sleep(d) })
	vPreempt(0)
	t0 := vNow()
	// the sleep runs its course: nothing is sent until the wake-up PINGREQ
	vSleepUntil(t0 + int64(d) - int64(50*time.Millisecond))
	resent := 0
	for _, dg := range w.conn.out {
		if r := vParseSN(dg); r.OK && r.Typ == vtDISCONNECT {
			resent++
		}
	}
	vAssert(resent == 1, "C18.sleep_race_no_resend_after_reply")
	vSleepUntil(t0 + int64(d) + int64(50*time.Millisecond))
	w.gwSends(pkts1.NewPingresp())
	vSleepUntil(vNow() + int64(100*time.Millisecond))
	vReach("C18.sleep_race_done")
	vAssert(vAnd(w.ret, w.err == nil), "C18.sleep_race_sleep_succeeds")
}
