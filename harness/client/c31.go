package client

import (
	"bytes"
	"context"
	"time"

	"golang.org/x/sync/errgroup"

	pkts1 "github.com/energomonitor/bisquitt/packets1"
	"github.com/energomonitor/bisquitt/util"
)

// C31 (client-library part): a client configured without a user never sends
// AUTH; a client configured with one sends AUTH (PLAIN, its user and password)
// right after every CONNECT it sends, retransmitted CONNECTs included, and
// nowhere else.

// VH_C31_client(userLen, passLen, silentAttempts): user and password symbolic;
// the gateway ignores the first silentAttempts connect attempts (RetryCount 2),
// then accepts; afterwards the client registers, publishes, pings, sleeps
// shortly, connects again and disconnects.
func VH_C31_client(userLen, passLen, silentAttempts int) {
	cfg := vDefaultCfg(nil)
	cfg.RetryCount = 2
	cfg.User = vNondetString("user", userLen)
	cfg.Password = vNondetBytes("password", passLen)
	w := vNewCWNoDial(cfg)
	var all [][]byte
	w.call(w.c.Connect)
	for i := 0; i < silentAttempts; i++ {
		vSleepUntil(vNow() + int64(cfg.ConnectTimeout))
	}
	w.gwSends(pkts1.NewConnack(pkts1.RC_ACCEPTED))
	vAssume(vAnd(w.ret, w.err == nil))
	all = append(all, w.conn.take()...)
	// some traffic
	w.call(func() error { return w.c.Register("ab/c") })
	out := w.conn.take()
	all = append(all, out...)
	ra := pkts1.NewRegack(5, pkts1.RC_ACCEPTED)
	ra.SetMessageID(vLastMsgID(out))
	w.gwSends(ra)
	w.call(func() error { return w.c.Publish("ab/c", []byte("x"), 0, false) })
	w.call(w.c.Ping)
	w.gwSends(pkts1.NewPingresp())
	// a sleep cycle and the return to active with another Connect
	w.call(func() error { return w.c.Sleep(time.Second) })
	w.gwSends(pkts1.NewDisconnect(0))
	vSleepUntil(vNow() + int64(time.Second))
	w.gwSends(pkts1.NewPingresp())
	all = append(all, w.conn.take()...)
	w.call(w.c.Connect)
	w.gwSends(pkts1.NewConnack(pkts1.RC_ACCEPTED))
	w.call(w.c.Disconnect)
	w.gwSends(pkts1.NewDisconnect(0))
	all = append(all, w.conn.take()...)
	vReach("C31.history_done")

	connects, auths := 0, 0
	wantData := append(append([]byte{0}, []byte(cfg.User)...), append([]byte{0}, cfg.Password...)...)
	for i, d := range all {
		r := vParseSN(d)
		if !r.OK {
			continue
		}
		switch r.Typ {
		case vtCONNECT:
			connects++
			if cfg.User != "" {
				ok := i+1 < len(all)
				if ok {
					a := vParseSN(all[i+1])
					ok = vAnd(vAnd(a.OK, a.Typ == vtAUTH), vAnd(string(a.Method) == "PLAIN", bytes.Equal(a.Str, wantData)))
				}
				vAssert(ok, "C31.auth_right_after_every_connect")
			}
		case vtAUTH:
			auths++
			vAssert(cfg.User != "", "C31.no_auth_without_user")
			prev := false
			if i > 0 {
				p := vParseSN(all[i-1])
				prev = vAnd(p.OK, p.Typ == vtCONNECT)
			}
			vAssert(prev, "C31.auth_only_after_connect")
		}
	}
	vAssert(connects == silentAttempts+2, "C31.connects_counted")
	if cfg.User == "" {
		vAssert(auths == 0, "C31.no_auth_without_user")
	} else {
		vReach("C31.with_user")
	}
}

// vNewCWNoDial: the client world without calling Dial (which the tool part of
// this check substitutes): the same steps Dial performs with a mock-up
// connection are done here.
func vNewCWNoDial(cfg *ClientConfig) *vCW {
	w := &vCW{conn: vNewChanConn(), cfg: cfg}
	w.c = NewClient(util.NoOpLogger{}, cfg)
	ctx, cancel := context.WithCancel(context.Background())
	group, groupCtx := errgroup.WithContext(ctx)
	w.c.cancel, w.c.group, w.c.groupCtx = cancel, group, groupCtx
	w.c.conn = w.conn
	group.Go(func() error { return w.c.receiveLoop(groupCtx) })
	vRunUntilIdle()
	return w
}
