package client

import (
	pkts "github.com/energomonitor/bisquitt/packets"
	pkts1 "github.com/energomonitor/bisquitt/packets1"
	"github.com/energomonitor/bisquitt/util"
)

// C06 (client library side): an API call in flight (message ID m1, taken from
// the client's own sequence, here in a symbolic state) and a QoS 2 PUBLISH
// started by the gateway with message ID m2 (symbolic) do not disturb each other.
//
// kind1: 0 = Publish QoS 1, 1 = Publish QoS 2, 2 = Subscribe, 3 = Register, 4 = Unsubscribe
// order: 0 = the API call starts first, 1 = the gateway's PUBLISH arrives first
func VH_C06_cl(kind1, order int) {
	w := vNewCW(vDefaultCfg(nil))
	w.connect()
	c := w.c
	n := vNondetU16("seq_next")
	vAssume(vAnd(n >= 1, n < 0xFFFF))
	c.msgID = util.VSeqState(pkts.MinPacketID, pkts.MaxPacketID, n, false)
	m2 := vNondetU16("m2")
	vLabel("same_id", vB2U(n == m2))
	vLabel("kind1", uint64(kind1))
	vLabel("order", uint64(order))
	w.call(func() error { return c.Subscribe("#", 0, w.handler("h")) })
	sa := pkts1.NewSuback(0, pkts1.RC_ACCEPTED, 0)
	sa.SetMessageID(vLastMsgID(w.conn.take()))
	w.gwSends(sa)
	vAssume(vAnd(w.ret, w.err == nil))
	m1 := n + 1 // the Subscribe above consumed n

	start1 := func() {
		switch kind1 {
		case 0:
			w.call(func() error { return c.Publish("ab", []byte("x"), 1, false) })
		case 1:
			w.call(func() error { return c.Publish("ab", []byte("x"), 2, false) })
		case 2:
			w.call(func() error { return c.Subscribe("t/x", 0, nil) })
		case 3:
			w.call(func() error { return c.Register("t/x") })
		case 4:
			w.call(func() error { return c.Unsubscribe("t/x") })
		}
		w.conn.take()
	}
	start2 := func() {
		p := pkts1.NewPublish(pkts.EncodeShortTopic("zz"), []byte("y"), false, 2, false, pkts1.TIT_SHORT)
		p.SetMessageID(m2)
		w.gwSends(p)
	}
	vLabel("same_id", vB2U(m1 == m2))
	if order == 0 {
		start1()
		start2()
	} else {
		start2()
		start1()
	}
	out := w.conn.take()
	if order == 0 {
		ok := false
		for _, d := range out {
			r := vParseSN(d)
			ok = vOr(ok, vAnd(r.OK, vAnd(r.Typ == vtPUBREC, r.MsgID == m2)))
		}
		vAssert(ok, "C06.cl_gateway_publish_gets_pubrec")
	}
	// the gateway acknowledges the API call
	switch kind1 {
	case 0:
		a := pkts1.NewPuback(0, pkts1.RC_ACCEPTED)
		a.SetMessageID(m1)
		w.gwSends(a)
	case 1:
		a := pkts1.NewPubrec()
		a.SetMessageID(m1)
		w.gwSends(a)
		b := pkts1.NewPubcomp()
		b.SetMessageID(m1)
		w.gwSends(b)
	case 2:
		a := pkts1.NewSuback(9, pkts1.RC_ACCEPTED, 0)
		a.SetMessageID(m1)
		w.gwSends(a)
	case 3:
		a := pkts1.NewRegack(9, pkts1.RC_ACCEPTED)
		a.SetMessageID(m1)
		w.gwSends(a)
	case 4:
		a := pkts1.NewUnsuback()
		a.SetMessageID(m1)
		w.gwSends(a)
	}
	vAssert(vAnd(w.ret, w.err == nil), "C06.cl_api_call_completes")
	w.conn.take()
	// the gateway releases its QoS 2 message
	rel := pkts1.NewPubrel()
	rel.SetMessageID(m2)
	w.gwSends(rel)
	vRunUntilIdle()
	ok := false
	for _, d := range w.conn.take() {
		r := vParseSN(d)
		ok = vOr(ok, vAnd(r.OK, vAnd(r.Typ == vtPUBCOMP, r.MsgID == m2)))
	}
	vReach("C06.cl_done")
	vAssert(ok, "C06.cl_gateway_exchange_completes")
	vAssert(len(w.got) == 1, "C06.cl_gateway_message_delivered_once")
}
