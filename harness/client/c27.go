package client

import (
	pkts "github.com/energomonitor/bisquitt/packets"
	pkts1 "github.com/energomonitor/bisquitt/packets1"
)

// C27: client dispatch follows MQTT topic-filter matching.

// vLevels builds level strings from a shape: digits (base 3, least significant
// first) give the length (0..2) of each of the n levels; bytes are symbolic and
// never '/'.
func vLevels(label string, n, shape int) []string {
	var out []string
	for i := 0; i < n; i++ {
		l := shape % 3
		shape /= 3
		s := vNondetString(label, l)
		for j := 0; j < l; j++ {
			vAssume(s[j] != '/')
		}
		out = append(out, s)
	}
	return out
}

func vJoin(levels []string) string {
	s := ""
	for i, l := range levels {
		if i > 0 {
			s += "/"
		}
		s += l
	}
	return s
}

func vHasWildByte(s string) bool {
	w := false
	for i := 0; i < len(s); i++ {
		w = vOr(w, vOr(s[i] == '+', s[i] == '#'))
	}
	return w
}

// vValidFilter: wildcards stand alone in their level, '#' only in the last level.
func vValidFilter(levels []string) bool {
	ok := true
	for i, l := range levels {
		alone := vOr(l == "+", l == "#")
		ok = vAnd(ok, vOr(alone, !vHasWildByte(l)))
		if i < len(levels)-1 {
			ok = vAnd(ok, l != "#")
		}
	}
	return ok
}

// vRefMatch: MQTT 3.1.1 section 4.7 ('$' topics are not special-cased: the property names only '/', '+', '#').
func vRefMatch(filter, topic []string) bool {
	res := true
	for i, f := range filter {
		if i >= len(topic) {
			// the filter is longer than the topic: only "parent/#" matches the parent
			return vAnd(res, vAnd(f == "#", i == len(topic)))
		}
		hash := f == "#"
		if vAnd(res, hash) {
			return true
		}
		res = vAnd(res, vOr(f == "+", f == topic[i]))
	}
	return vAnd(res, len(filter) == len(topic))
}

// VH_C27_match(nf, fshape, nt, tshape): the real split+match against the reference.
func VH_C27_match(nf, fshape, nt, tshape int) {
	fl := vLevels("filter", nf, fshape)
	tl := vLevels("topic", nt, tshape)
	vAssume(vValidFilter(fl))
	for _, l := range tl {
		vAssume(!vHasWildByte(l))
	}
	got := match(split(vJoin(fl)), split(vJoin(tl)))
	want := vRefMatch(fl, tl)
	vAssert(got == want, "C27.match_agrees_with_reference")
	if want {
		vReach("C27.matching_pair")
	} else {
		vReach("C27.non_matching_pair")
	}
}

// VH_C27_dispatch(nf1, fs1, nf2, fs2, nt, ts, mode): two subscriptions
// completed through the real SUBACK handling (filters f1, f2, symbolic bytes),
// optionally an Unsubscribe of f1 completed through the real UNSUBACK handling,
// then a PUBLISH delivered (mode: 0 = QoS 0, 1 = QoS 1, 2 = QoS 2 + PUBREL).
func VH_C27_dispatch(nf1, fs1, nf2, fs2, nt, ts, mode int) {
	w := vNewCW(vDefaultCfg(nil))
	w.connect()
	c := w.c
	f1 := vLevels("f1", nf1, fs1)
	f2 := vLevels("f2", nf2, fs2)
	tl := vLevels("topic", nt, ts)
	vAssume(vAnd(vValidFilter(f1), vValidFilter(f2)))
	for _, l := range tl {
		vAssume(!vHasWildByte(l))
	}
	s1, s2, topic := vJoin(f1), vJoin(f2), vJoin(tl)
	vAssume(vAnd(len(s1) != 2, vAnd(len(s2) != 2, len(topic) > 2))) // plain (not short) names
	vAssume(len(s1) > 0)
	vAssume(len(s2) > 0)
	sub := func(name string, tag string) {
		w.call(func() error { return c.Subscribe(name, 0, w.handler(tag)) })
		sa := pkts1.NewSuback(0, pkts1.RC_ACCEPTED, 0)
		sa.SetMessageID(vLastMsgID(w.conn.take()))
		w.gwSends(sa)
		vAssume(vAnd(w.ret, w.err == nil))
	}
	sub(s1, "h1")
	sub(s2, "h2")
	unsub := vNondetBool("unsubscribe_f1")
	doUnsub := func() {
		w.call(func() error { return c.Unsubscribe(s1) })
		ua := pkts1.NewUnsuback()
		ua.SetMessageID(vLastMsgID(w.conn.take()))
		w.gwSends(ua)
		vAssume(vAnd(w.ret, w.err == nil))
	}
	// mode 3: the Unsubscribe completes between the QoS 2 PUBLISH and its PUBREL
	// (the subscriptions current at delivery time, i.e. at PUBREL, decide)
	if unsub && mode != 3 {
		doUnsub()
	}
	// the gateway registers the topic and publishes on it
	reg := pkts1.NewRegister(9, topic)
	reg.SetMessageID(1)
	w.gwSends(reg)
	qos := uint8(mode)
	if mode == 3 {
		qos = 2
	}
	p := pkts1.NewPublish(9, []byte("x"), false, qos, false, pkts1.TIT_REGISTERED)
	p.SetMessageID(2)
	w.gwSends(p)
	if qos == 2 {
		vAssert(len(w.got) == 0, "C27.qos2_not_before_pubrel")
		if unsub && mode == 3 {
			w.conn.take()
			doUnsub()
		}
		rel := pkts1.NewPubrel()
		rel.SetMessageID(2)
		w.gwSends(rel)
	}
	vRunUntilIdle()
	m1 := vAnd(!unsub, vRefMatch(f1, tl))
	m2 := vRefMatch(f2, tl)
	same := s1 == s2 // the second subscription replaced the first (same filter)
	vAssert(len(w.got) <= 1, "C27.at_most_one_callback")
	if len(w.got) == 1 {
		vReach("C27.delivered")
		if w.got[0] == "h1" {
			vAssert(vAnd(m1, !same), "C27.invoked_filter_matches")
		} else {
			vAssert(vOr(m2, vAnd(same, false)), "C27.invoked_filter_matches")
		}
	} else {
		vReach("C27.not_delivered")
		// nothing matched: f2 does not match, and f1 does not match or is unsubscribed
		// (an Unsubscribe of a filter equal to f2 removes the shared handler entry)
		vAssert(vAnd(vOr(!m2, vAnd(unsub, same)), vOr(!m1, same)), "C27.matching_subscription_is_invoked")
	}
	_ = pkts.MinPacketID
}
