package bisquitt

import (
	"context"
	"errors"
	"net"
	"os"
	"time"

	"github.com/urfave/cli/v2"

	"github.com/energomonitor/bisquitt/client"
	"github.com/energomonitor/bisquitt/gateway"
	"github.com/energomonitor/bisquitt/topics"
	"github.com/energomonitor/bisquitt/util"
)

// Stubs substituted (engine only) for the library calls of the three
// command-line tools, so that their real handleAction closures can be executed
// symbolically: flag accessors of urfave/cli read a table filled by the
// harness; loggers, signal handling, name resolution and file readers are
// inert; the first network step (Client.Dial / Gateway.ListenAndServe) records
// that the tool started, and with which configuration, and returns an error.

type VFlagTable struct {
	Bools   map[string]bool
	Strings map[string]string
	Slices  map[string][]string
	Uints   map[string]uint
	Set     map[string]bool
}

var VFlags *VFlagTable

func VResetFlags() *VFlagTable {
	VFlags = &VFlagTable{Bools: map[string]bool{}, Strings: map[string]string{}, Slices: map[string][]string{}, Uints: map[string]uint{}, Set: map[string]bool{}}
	VTool = VToolTrace{}
	return VFlags
}

func VCtxBool(c *cli.Context, name string) bool            { return VFlags.Bools[name] }
func VCtxString(c *cli.Context, name string) string        { return VFlags.Strings[name] }
func VCtxPath(c *cli.Context, name string) string          { return VFlags.Strings[name] }
func VCtxStringSlice(c *cli.Context, name string) []string { return VFlags.Slices[name] }
func VCtxUint(c *cli.Context, name string) uint            { return VFlags.Uints[name] }
func VCtxInt(c *cli.Context, name string) int              { return 1883 }
func VCtxDuration(c *cli.Context, name string) time.Duration {
	return time.Second
}
func VCtxIsSet(c *cli.Context, name string) bool { return VFlags.Set[name] }

// what the tool did
type VToolTrace struct {
	Started      bool
	ClientCfg    *client.ClientConfig
	GatewayCfg   *gateway.GatewayConfig
	FileReads    []string // paths given to ReadPredefinedTopicsFile
	OptionParses [][]string
}

var VTool VToolTrace

var VErrStop = errors.New("harness: stop at the first network step")

func VClientDial(c *client.Client, address string) error {
	VTool.Started = true
	VTool.ClientCfg = client.VCfg(c)
	return VErrStop
}

func VGatewayListen(g *gateway.Gateway, ctx context.Context, address string) error {
	VTool.Started = true
	VTool.GatewayCfg = gateway.VGatewayCfg(g)
	return VErrStop
}

func VNewLogger(tag string) util.Logger { return util.NoOpLogger{} }

func VSignalNotify(c chan<- os.Signal, sig ...os.Signal) {}

func VResolveTCPAddr(network, address string) (*net.TCPAddr, error) { return &net.TCPAddr{}, nil }

// VFileTopics: what the predefined-topics file contains (set by the harness).
var VFileTopics topics.PredefinedTopics

func VReadPredefinedTopicsFile(path string) (topics.PredefinedTopics, error) {
	VTool.FileReads = append(VTool.FileReads, path)
	out := topics.PredefinedTopics{}
	out.Merge(VFileTopics)
	return out, nil
}
