package packets1

// VH_C23_size_arith: PUBLISH with a payload of symbolic length n (contents
// irrelevant): the length the header announces equals the real datagram size
// and the datagram fits the transport maximum.
func VH_C23_size_arith() {
	buf := make([]byte, 70000)
	n := vNondetInt("payload_len")
	vAssume(vAnd(n >= 0, n <= 70000))
	vLabel("payload_len", uint64(n))
	p := NewPublish(1, nil, false, 0, false, TIT_SHORT)
	p.Data = buf[:n]
	p.computeLength()
	size := 5 + n + 2
	if size > 255 {
		size = 5 + n + 4
	}
	vAssert(int(p.PacketLength()) == size, "C23.arith_length_field")
	vAssert(size <= MaxPacketLen, "C23.arith_size")
	// REGISTER with a topic name of symbolic length
	r := NewRegister(1, "")
	r.TopicName = string(buf[:n])
	r.computeLength()
	rsize := 4 + n + 2
	if rsize > 255 {
		rsize = 4 + n + 4
	}
	vAssert(int(r.PacketLength()) == rsize, "C23.arith_register_length_field")
	vAssert(rsize <= MaxPacketLen, "C23.arith_register_size")
}
