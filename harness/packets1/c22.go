package packets1

import (
	"bytes"

	pkts "github.com/energomonitor/bisquitt/packets"
)

// C22: decoded packets faithfully reflect the datagram.

func vFlagBool(f byte, mask byte) bool { return f&mask == mask }

// vAliases reports whether two non-empty slices start at the same memory
// (the reference parser slices the very buffer the decoder was given).
func vAliases(s []byte, ref []byte) bool {
	if len(s) == 0 || len(ref) == 0 {
		return true
	}
	return &s[0] == &ref[0]
}

// vMatchesRef compares every field of the decoded packet with the reference
// parse r of the same datagram. With deep == false the contents of variable
// fields are compared by length (and by aliasing for []byte fields, which the
// decoders slice out of the receive buffer); with deep == true byte by byte.
func vMatchesRef(pkt pkts.Packet, r vSN, raw []byte, deep bool) bool {
	str := func(s string) bool {
		if !deep {
			return len(s) == len(r.Str)
		}
		return s == string(r.Str)
	}
	bs := func(b []byte) bool {
		if !deep {
			return vAnd(len(b) == len(r.Str), vAliases(b, r.Str))
		}
		return bytes.Equal(b, r.Str)
	}
	f := r.Flags
	qos := (f >> 5) & 3
	switch p := pkt.(type) {
	case *Advertise:
		return vAnd(r.Typ == vtADVERTISE, vAnd(p.GatewayID == r.B0, p.Duration == r.Duration))
	case *SearchGw:
		return vAnd(r.Typ == vtSEARCHGW, p.Radius == r.B0)
	case *GwInfo:
		return vAnd(r.Typ == vtGWINFO, vAnd(p.GatewayID == r.B0, bs(p.GatewayAddress)))
	case *Auth:
		m := len(p.Method) == len(r.Method)
		if deep {
			m = p.Method == string(r.Method)
		}
		return vAnd(vAnd(r.Typ == vtAUTH, p.Reason == r.B0), vAnd(m, bs(p.Data)))
	case *Connect:
		return vAnd(vAnd(r.Typ == vtCONNECT, vAnd(p.Will == vFlagBool(f, 0x08), p.CleanSession == vFlagBool(f, 0x04))),
			vAnd(vAnd(p.ProtocolID == r.B0, p.Duration == r.Duration), bs(p.ClientID)))
	case *Connack:
		return vAnd(r.Typ == vtCONNACK, byte(p.ReturnCode) == r.RC)
	case *WillTopicReq:
		return r.Typ == vtWILLTOPICREQ
	case *WillTopic:
		if r.Empty {
			return vAnd(r.Typ == vtWILLTOPIC, p.WillTopic == "")
		}
		return vAnd(vAnd(r.Typ == vtWILLTOPIC, p.QOS == qos), vAnd(p.Retain == vFlagBool(f, 0x10), str(p.WillTopic)))
	case *WillMsgReq:
		return r.Typ == vtWILLMSGREQ
	case *WillMsg:
		return vAnd(r.Typ == vtWILLMSG, bs(p.WillMsg))
	case *Register:
		return vAnd(vAnd(r.Typ == vtREGISTER, p.TopicID == r.TopicID), vAnd(p.MessageID() == r.MsgID, str(p.TopicName)))
	case *Regack:
		return vAnd(vAnd(r.Typ == vtREGACK, p.TopicID == r.TopicID), vAnd(p.MessageID() == r.MsgID, byte(p.ReturnCode) == r.RC))
	case *Publish:
		return vAnd(vAnd(vAnd(r.Typ == vtPUBLISH, p.DUP() == vFlagBool(f, 0x80)), vAnd(p.QOS == qos, p.Retain == vFlagBool(f, 0x10))),
			vAnd(vAnd(p.TopicIDType == f&3, p.TopicID == r.TopicID), vAnd(p.MessageID() == r.MsgID, bs(p.Data))))
	case *Puback:
		return vAnd(vAnd(r.Typ == vtPUBACK, p.TopicID == r.TopicID), vAnd(p.MessageID() == r.MsgID, byte(p.ReturnCode) == r.RC))
	case *Pubcomp:
		return vAnd(r.Typ == vtPUBCOMP, p.MessageID() == r.MsgID)
	case *Pubrec:
		return vAnd(r.Typ == vtPUBREC, p.MessageID() == r.MsgID)
	case *Pubrel:
		return vAnd(r.Typ == vtPUBREL, p.MessageID() == r.MsgID)
	case *Subscribe:
		base := vAnd(vAnd(r.Typ == vtSUBSCRIBE, p.DUP() == vFlagBool(f, 0x80)), vAnd(p.QOS == qos, vAnd(p.TopicIDType == f&3, p.MessageID() == r.MsgID)))
		if f&3 == 0 {
			return vAnd(base, str(p.TopicName))
		}
		return vAnd(base, p.TopicID == r.TopicID)
	case *Suback:
		return vAnd(vAnd(r.Typ == vtSUBACK, p.QOS == qos), vAnd(p.TopicID == r.TopicID, vAnd(p.MessageID() == r.MsgID, byte(p.ReturnCode) == r.RC)))
	case *Unsubscribe:
		base := vAnd(r.Typ == vtUNSUBSCRIBE, vAnd(p.TopicIDType == f&3, p.MessageID() == r.MsgID))
		if f&3 == 0 {
			return vAnd(base, str(p.TopicName))
		}
		return vAnd(base, p.TopicID == r.TopicID)
	case *Unsuback:
		return vAnd(r.Typ == vtUNSUBACK, p.MessageID() == r.MsgID)
	case *Pingreq:
		return vAnd(r.Typ == vtPINGREQ, bs(p.ClientID))
	case *Pingresp:
		return r.Typ == vtPINGRESP
	case *Disconnect:
		return vAnd(r.Typ == vtDISCONNECT, p.Duration == r.Duration)
	case *WillTopicUpd:
		if r.Empty {
			return vAnd(r.Typ == vtWILLTOPICUPD, p.WillTopic == "")
		}
		return vAnd(vAnd(r.Typ == vtWILLTOPICUPD, p.QOS == qos), vAnd(p.Retain == vFlagBool(f, 0x10), str(p.WillTopic)))
	case *WillTopicResp:
		return vAnd(r.Typ == vtWILLTOPICRESP, byte(p.ReturnCode) == r.RC)
	case *WillMsgUpd:
		return vAnd(r.Typ == vtWILLMSGUPD, bs(p.WillMsg))
	case *WillMsgResp:
		return vAnd(r.Typ == vtWILLMSGRESP, byte(p.ReturnCode) == r.RC)
	}
	return false
}

// VH_C22_fields: arbitrary datagram of arbitrary length; on every successful
// decode the packet's type and fields are those at the specified byte
// positions after the actual header (decided by the first octet only).
func VH_C22_fields() {
	rd := &vSymReader{}
	pkt, err := ReadPacket(rd)
	if err != nil {
		vReach("C22.rejected")
		return
	}
	vReach("C22.decoded")
	raw := rd.buf[:rd.n]
	r := vParseSN(raw)
	vAssert(r.OK, "C22.accepts_only_wellformed")
	if !r.OK {
		return
	}
	vAssert(vMatchesRef(pkt, r, raw, false), "C22.fields")
}

// vFlagMask: the flag bits a type uses (the others are ignored by that type).
func vFlagMask(t byte) byte {
	switch t {
	case vtPUBLISH:
		return 0xF3
	case vtSUBSCRIBE:
		return 0xE3
	case vtUNSUBSCRIBE:
		return 0x03
	case vtCONNECT:
		return 0x0C
	case vtWILLTOPIC, vtWILLTOPICUPD:
		return 0x70
	case vtSUBACK:
		return 0x60
	}
	return 0xFF
}

func vHasFlags(t byte) bool {
	switch t {
	case vtPUBLISH, vtSUBSCRIBE, vtUNSUBSCRIBE, vtCONNECT, vtWILLTOPIC, vtWILLTOPICUPD, vtSUBACK:
		return true
	}
	return false
}

// VH_C22_reencode(n): datagram of exactly n symbolic bytes. On success the
// decoded fields equal the reference byte by byte, and re-encoding reproduces
// type and body up to: ignored flag bits, DISCONNECT duration 0, the length field.
func VH_C22_reencode(n int, form int) {
	raw := vNondetBytes("dgram", n)
	// the length field is consistent with the datagram size, in the 1-octet
	// (form 0) or the 3-octet (form 1) format; every other byte is arbitrary.
	// (Inconsistent length fields are covered by VH_C22_fields.)
	if form == 0 {
		vAssume(n >= 2 && n <= 255)
		vAssume(int(raw[0]) == n)
	} else {
		vAssume(n >= 4)
		vAssume(vAnd(raw[0] == 1, int(raw[1])<<8|int(raw[2]) == n))
	}
	pkt, err := ReadPacket(&vBytesReader{b: raw})
	if err != nil {
		vReach("C22.rejected")
		return
	}
	vReach("C22.decoded")
	r := vParseSN(raw)
	vAssert(r.OK, "C22.accepts_only_wellformed")
	if !r.OK {
		return
	}
	vAssert(vMatchesRef(pkt, r, raw, true), "C22.fields_deep")
	b2, err := pkt.Pack()
	vAssert(err == nil, "C22.repack_ok")
	r2 := vParseSN(b2)
	vAssert(r2.OK, "C22.repack_wellformed")
	if !r2.OK {
		return
	}
	vAssert(r2.Typ == r.Typ, "C22.repack_type")
	body, body2 := r.Body, r2.Body
	if r.Typ == vtDISCONNECT && len(body) == 2 && body[0] == 0 && body[1] == 0 {
		vReach("C22.disconnect_zero")
		vAssert(len(body2) == 0, "C22.repack_body")
		return
	}
	vAssert(len(body2) == len(body), "C22.repack_bodylen")
	if len(body2) != len(body) {
		return
	}
	if vHasFlags(r.Typ) && len(body) > 0 {
		m := vFlagMask(r.Typ)
		vAssert(vAnd(body[0]&m == body2[0]&m, bytes.Equal(body[1:], body2[1:])), "C22.repack_body")
	} else {
		vAssert(bytes.Equal(body, body2), "C22.repack_body")
	}
}
