package packets1

import (
	"bytes"

	pkts "github.com/energomonitor/bisquitt/packets"
)

// ---------------------------------------------------------------------------
// shared by C21 / C22

type vBytesReader struct {
	b   []byte
	buf []byte // the buffer ReadPacket handed in (aliasing checks)
}

func (r *vBytesReader) Read(p []byte) (int, error) {
	r.buf = p
	return copy(p, r.b), nil
}

type vSymReader struct {
	buf []byte
	n   int
}

func (r *vSymReader) Read(p []byte) (int, error) {
	r.buf = p
	r.n = vDatagram("dgram", p)
	return r.n, nil
}

// vBuild constructs a packet of type typ through its constructor from symbolic
// field values in their legal ranges; n is the length of its variable-size field.
func vBuild(typ int, n int) pkts.Packet {
	switch byte(typ) {
	case vtADVERTISE:
		return NewAdvertise(vNondetU8("gwid"), vNondetU16("duration"))
	case vtSEARCHGW:
		return NewSearchGw(vNondetU8("radius"))
	case vtGWINFO:
		return NewGwInfo(vNondetU8("gwid"), vNondetBytes("addr", n))
	case vtAUTH:
		p := NewAuthPlain("", nil)
		p.Reason = vNondetU8("reason")
		ml := vChoose(3) * 2 // method length 0, 2, 4
		p.Method = vNondetString("method", ml)
		p.Data = vNondetBytes("data", n)
		return p
	case vtCONNECT:
		return NewConnect(vNondetU16("duration"), vNondetBytes("clientid", n), vNondetBool("will"), vNondetBool("clean"))
	case vtCONNACK:
		return NewConnack(ReturnCode(vNondetU8("rc")))
	case vtWILLTOPICREQ:
		return NewWillTopicReq()
	case vtWILLTOPIC:
		q := vNondetU8("qos")
		r := vNondetBool("retain")
		if n == 0 { // an empty WILLTOPIC carries no flags
			q, r = 0, false
		}
		vAssume(q <= 3)
		return NewWillTopic(vNondetString("topic", n), q, r)
	case vtWILLMSGREQ:
		return NewWillMsgReq()
	case vtWILLMSG:
		return NewWillMsg(vNondetBytes("msg", n))
	case vtREGISTER:
		p := NewRegister(vNondetU16("topicid"), vNondetString("name", n))
		p.SetMessageID(vNondetU16("msgid"))
		return p
	case vtREGACK:
		p := NewRegack(vNondetU16("topicid"), ReturnCode(vNondetU8("rc")))
		p.SetMessageID(vNondetU16("msgid"))
		return p
	case vtPUBLISH:
		q := vNondetU8("qos")
		tit := vNondetU8("tit")
		vAssume(q <= 3)
		vAssume(tit <= 3)
		p := NewPublish(vNondetU16("topicid"), vNondetBytes("data", n), vNondetBool("dup"), q, vNondetBool("retain"), tit)
		p.SetMessageID(vNondetU16("msgid"))
		return p
	case vtPUBACK:
		p := NewPuback(vNondetU16("topicid"), ReturnCode(vNondetU8("rc")))
		p.SetMessageID(vNondetU16("msgid"))
		return p
	case vtPUBCOMP:
		p := NewPubcomp()
		p.SetMessageID(vNondetU16("msgid"))
		return p
	case vtPUBREC:
		p := NewPubrec()
		p.SetMessageID(vNondetU16("msgid"))
		return p
	case vtPUBREL:
		p := NewPubrel()
		p.SetMessageID(vNondetU16("msgid"))
		return p
	case vtSUBSCRIBE:
		q := vNondetU8("qos")
		vAssume(q <= 3)
		tit := uint8(vChoose(3))
		var p *Subscribe
		if tit == TIT_STRING {
			p = NewSubscribe(vNondetString("name", n), 0, vNondetBool("dup"), q, tit)
		} else {
			p = NewSubscribe("", vNondetU16("topicid"), vNondetBool("dup"), q, tit)
		}
		p.SetMessageID(vNondetU16("msgid"))
		return p
	case vtSUBACK:
		q := vNondetU8("qos")
		vAssume(q <= 3)
		p := NewSuback(vNondetU16("topicid"), ReturnCode(vNondetU8("rc")), q)
		p.SetMessageID(vNondetU16("msgid"))
		return p
	case vtUNSUBSCRIBE:
		tit := uint8(vChoose(3))
		var p *Unsubscribe
		if tit == TIT_STRING {
			p = NewUnsubscribe(vNondetString("name", n), 0, tit)
		} else {
			p = NewUnsubscribe("", vNondetU16("topicid"), tit)
		}
		p.SetMessageID(vNondetU16("msgid"))
		return p
	case vtUNSUBACK:
		p := NewUnsuback()
		p.SetMessageID(vNondetU16("msgid"))
		return p
	case vtPINGREQ:
		return NewPingreq(vNondetBytes("clientid", n))
	case vtPINGRESP:
		return NewPingresp()
	case vtDISCONNECT:
		return NewDisconnect(vNondetU16("duration"))
	case vtWILLTOPICUPD:
		q := vNondetU8("qos")
		r := vNondetBool("retain")
		if n == 0 {
			q, r = 0, false
		}
		vAssume(q <= 3)
		return NewWillTopicUpd(vNondetString("topic", n), q, r)
	case vtWILLTOPICRESP:
		return NewWillTopicResp(ReturnCode(vNondetU8("rc")))
	case vtWILLMSGUPD:
		return NewWillMsgUpd(vNondetBytes("msg", n))
	case vtWILLMSGRESP:
		return NewWillMsgResp(ReturnCode(vNondetU8("rc")))
	}
	return nil
}

// vMinVar is the smallest legal length of the variable-size field of a type
// (types whose decoder demands a non-empty name / client id).
func vMinVar(typ int) int {
	switch byte(typ) {
	case vtCONNECT, vtREGISTER, vtSUBSCRIBE, vtUNSUBSCRIBE:
		return 1
	}
	return 0
}

func vHasVar(typ int) bool {
	switch byte(typ) {
	case vtGWINFO, vtAUTH, vtCONNECT, vtWILLTOPIC, vtWILLMSG, vtREGISTER, vtPUBLISH, vtSUBSCRIBE, vtUNSUBSCRIBE,
		vtPINGREQ, vtWILLTOPICUPD, vtWILLMSGUPD:
		return true
	}
	return false
}

// vEqPkt: field-by-field equality of two packets, header included.
func vEqPkt(a, b pkts.Packet) bool {
	switch x := a.(type) {
	case *Advertise:
		y, ok := b.(*Advertise)
		return ok && vAnd(x.Header == y.Header, vAnd(x.GatewayID == y.GatewayID, x.Duration == y.Duration))
	case *SearchGw:
		y, ok := b.(*SearchGw)
		return ok && vAnd(x.Header == y.Header, x.Radius == y.Radius)
	case *GwInfo:
		y, ok := b.(*GwInfo)
		return ok && vAnd(x.Header == y.Header, vAnd(x.GatewayID == y.GatewayID, bytes.Equal(x.GatewayAddress, y.GatewayAddress)))
	case *Auth:
		y, ok := b.(*Auth)
		return ok && vAnd(vAnd(x.Header == y.Header, x.Reason == y.Reason), vAnd(x.Method == y.Method, bytes.Equal(x.Data, y.Data)))
	case *Connect:
		y, ok := b.(*Connect)
		return ok && vAnd(vAnd(x.Header == y.Header, vAnd(x.Will == y.Will, x.CleanSession == y.CleanSession)),
			vAnd(vAnd(x.ProtocolID == y.ProtocolID, x.Duration == y.Duration), bytes.Equal(x.ClientID, y.ClientID)))
	case *Connack:
		y, ok := b.(*Connack)
		return ok && vAnd(x.Header == y.Header, x.ReturnCode == y.ReturnCode)
	case *WillTopicReq:
		y, ok := b.(*WillTopicReq)
		return ok && x.Header == y.Header
	case *WillTopic:
		y, ok := b.(*WillTopic)
		return ok && vAnd(vAnd(x.Header == y.Header, x.QOS == y.QOS), vAnd(x.Retain == y.Retain, x.WillTopic == y.WillTopic))
	case *WillMsgReq:
		y, ok := b.(*WillMsgReq)
		return ok && x.Header == y.Header
	case *WillMsg:
		y, ok := b.(*WillMsg)
		return ok && vAnd(x.Header == y.Header, bytes.Equal(x.WillMsg, y.WillMsg))
	case *Register:
		y, ok := b.(*Register)
		return ok && vAnd(vAnd(x.Header == y.Header, x.TopicID == y.TopicID), vAnd(x.MessageID() == y.MessageID(), x.TopicName == y.TopicName))
	case *Regack:
		y, ok := b.(*Regack)
		return ok && vAnd(vAnd(x.Header == y.Header, x.TopicID == y.TopicID), vAnd(x.MessageID() == y.MessageID(), x.ReturnCode == y.ReturnCode))
	case *Publish:
		y, ok := b.(*Publish)
		return ok && vAnd(vAnd(vAnd(x.Header == y.Header, x.DUP() == y.DUP()), vAnd(x.QOS == y.QOS, x.Retain == y.Retain)),
			vAnd(vAnd(x.TopicIDType == y.TopicIDType, x.TopicID == y.TopicID), vAnd(x.MessageID() == y.MessageID(), bytes.Equal(x.Data, y.Data))))
	case *Puback:
		y, ok := b.(*Puback)
		return ok && vAnd(vAnd(x.Header == y.Header, x.TopicID == y.TopicID), vAnd(x.MessageID() == y.MessageID(), x.ReturnCode == y.ReturnCode))
	case *Pubcomp:
		y, ok := b.(*Pubcomp)
		return ok && vAnd(x.Header == y.Header, x.MessageID() == y.MessageID())
	case *Pubrec:
		y, ok := b.(*Pubrec)
		return ok && vAnd(x.Header == y.Header, x.MessageID() == y.MessageID())
	case *Pubrel:
		y, ok := b.(*Pubrel)
		return ok && vAnd(x.Header == y.Header, x.MessageID() == y.MessageID())
	case *Subscribe:
		y, ok := b.(*Subscribe)
		return ok && vAnd(vAnd(vAnd(x.Header == y.Header, x.DUP() == y.DUP()), vAnd(x.QOS == y.QOS, x.TopicIDType == y.TopicIDType)),
			vAnd(x.MessageID() == y.MessageID(), vAnd(x.TopicID == y.TopicID, x.TopicName == y.TopicName)))
	case *Suback:
		y, ok := b.(*Suback)
		return ok && vAnd(vAnd(x.Header == y.Header, x.QOS == y.QOS), vAnd(x.TopicID == y.TopicID, vAnd(x.MessageID() == y.MessageID(), x.ReturnCode == y.ReturnCode)))
	case *Unsubscribe:
		y, ok := b.(*Unsubscribe)
		return ok && vAnd(vAnd(x.Header == y.Header, x.TopicIDType == y.TopicIDType),
			vAnd(x.MessageID() == y.MessageID(), vAnd(x.TopicID == y.TopicID, x.TopicName == y.TopicName)))
	case *Unsuback:
		y, ok := b.(*Unsuback)
		return ok && vAnd(x.Header == y.Header, x.MessageID() == y.MessageID())
	case *Pingreq:
		y, ok := b.(*Pingreq)
		return ok && vAnd(x.Header == y.Header, bytes.Equal(x.ClientID, y.ClientID))
	case *Pingresp:
		y, ok := b.(*Pingresp)
		return ok && x.Header == y.Header
	case *Disconnect:
		y, ok := b.(*Disconnect)
		return ok && vAnd(x.Header == y.Header, x.Duration == y.Duration)
	case *WillTopicUpd:
		y, ok := b.(*WillTopicUpd)
		return ok && vAnd(vAnd(x.Header == y.Header, x.QOS == y.QOS), vAnd(x.Retain == y.Retain, x.WillTopic == y.WillTopic))
	case *WillTopicResp:
		y, ok := b.(*WillTopicResp)
		return ok && vAnd(x.Header == y.Header, x.ReturnCode == y.ReturnCode)
	case *WillMsgUpd:
		y, ok := b.(*WillMsgUpd)
		return ok && vAnd(x.Header == y.Header, bytes.Equal(x.WillMsg, y.WillMsg))
	case *WillMsgResp:
		y, ok := b.(*WillMsgResp)
		return ok && vAnd(x.Header == y.Header, x.ReturnCode == y.ReturnCode)
	}
	return false
}

// ---------------------------------------------------------------------------
// C21: encode then decode gives back the same packet; length form

// VH_C21_roundtrip(typ, n): packet type typ, variable-size field of n bytes.
func VH_C21_roundtrip(typ int, n int) {
	p := vBuild(typ, n)
	b, err := p.Pack()
	vAssert(err == nil, "C21.pack_ok")
	// length form
	size := len(b)
	vAssert(size >= 2, "C21.size")
	if size <= 255 {
		vReach("C21.short_form")
		vAssert(vAnd(b[0] != 1, int(b[0]) == size), "C21.length_form")
	} else {
		vReach("C21.long_form")
		vAssert(vAnd(b[0] == 1, int(b[1])<<8|int(b[2]) == size), "C21.length_form")
	}
	q, err := ReadPacket(&vBytesReader{b: b})
	vAssert(err == nil, "C21.decode_ok")
	if err != nil {
		return
	}
	vAssert(vEqPkt(p, q), "C21.roundtrip")
}

// VH_C21_short_topic: the 2-byte short-topic encoding is a bijection.
func VH_C21_short_topic() {
	s := vNondetString("name", 2)
	vAssert(pkts.DecodeShortTopic(pkts.EncodeShortTopic(s)) == s, "C21.short_dec_enc")
	id := vNondetU16("id")
	vAssert(pkts.EncodeShortTopic(pkts.DecodeShortTopic(id)) == id, "C21.short_enc_dec")
	vAssert(pkts.IsShortTopic(pkts.DecodeShortTopic(id)), "C21.short_is_short")
}

// VH_C21_length_arith: header length arithmetic for a variable part of any size
// (symbolic, contents irrelevant): SetVarPartLength / HeaderLength /
// VarPartLength / PacketLength / PackToBuffer against the specification.
func VH_C21_length_arith() {
	v := vNondetU16("varlen")
	// legal range: the whole packet must fit the 16-bit length field
	vAssume(v <= 0xFFFF-4)
	h := pkts.NewHeader(pkts.PUBLISH, v)
	var want uint16
	if int(v)+2 <= 255 {
		want = v + 2
	} else {
		want = v + 4
	}
	vAssert(h.PacketLength() == want, "C21.arith_total")
	vAssert(h.VarPartLength() == v, "C21.arith_var")
	if want <= 255 {
		vAssert(h.HeaderLength() == 2, "C21.arith_hdr")
	} else {
		vAssert(h.HeaderLength() == 4, "C21.arith_hdr")
	}
}

// VH_C21_header_bytes(lo, hi): the bytes PackToBuffer writes, for every
// variable-part length in [lo, hi] (concretised by the engine, one path each).
func VH_C21_header_bytes(lo, hi int) {
	v := vNondetU16("varlen")
	vAssume(vAnd(int(v) >= lo, int(v) <= hi))
	h := pkts.NewHeader(pkts.PUBLISH, v)
	want := h.PacketLength()
	hb := h.PackToBuffer().Bytes()
	vAssert(len(hb) == int(h.HeaderLength()), "C21.arith_hdrbytes")
	if want <= 255 {
		vAssert(vAnd(len(hb) == 2, vAnd(hb[0] != 1, uint16(hb[0]) == want)), "C21.hdr_form")
	} else {
		vAssert(vAnd(len(hb) == 4, vAnd(hb[0] == 1, uint16(hb[1])<<8|uint16(hb[2]) == want)), "C21.hdr_form")
	}
	var h2 pkts.Header
	full := make([]byte, 4)
	copy(full, hb)
	err := h2.Unpack(full[:len(hb)])
	vAssert(err == nil, "C21.arith_unpack")
	vAssert(vAnd(h2.PacketLength() == want, h2.PacketType() == pkts.PUBLISH), "C21.arith_unpack_eq")
}
