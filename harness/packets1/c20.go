package packets1

// C20: decoding any datagram never panics.

type vDgramReader struct{}

func (r *vDgramReader) Read(p []byte) (int, error) {
	return vDatagram("dgram", p), nil
}

// VH_C20_read: ReadPacket on an arbitrary datagram of arbitrary length 0..8192.
func VH_C20_read() {
	r := &vDgramReader{}
	panicked := vPanics(func() {
		pkt, err := ReadPacket(r)
		if err == nil && pkt != nil {
			vReach("C20.decoded")
		} else {
			vReach("C20.rejected")
		}
	})
	vAssert(!panicked, "C20.nopanic")
}
